"""Native replay of an L2 instance: renders the scenario (lib/l2gen.Inst) into an ordinary integration
test that uses ONLY the crate's public API, real `panic!` / `catch_unwind`, real allocation, and runs it
with plain `cargo test` (guard off) in a scratch copy of the tree under test.

Not every instance can be rendered: pre-states that need header access (pre-set finalized bits, stale
tracing counters) have no public-API equivalent; for those `render` returns None.
"""
import os
import re
import subprocess

import l2gen

SUPPORT = r'''
#![allow(dead_code, unused_variables, unused_mut, static_mut_refs)]
use rust_cc::*;
#[cfg(feature = "weak-ptrs")]
use rust_cc::weak::Weak;
use std::cell::{Cell, RefCell};
use std::panic::{catch_unwind, AssertUnwindSafe};

const MAX_OBJ: usize = 4;
const CANARY: u64 = 0x5a5a_0000_a5a5_0000;

#[derive(Clone, Copy, PartialEq)]
enum Act { Nothing, ResurrectSelf, ResurrectNeighbour, UpgradeStore, UpgradeProbe, Collect, Alloc, ClearSlot0, ResurrectIntoSelf, ReleaseHeld, AllocAuto }

struct G {
    trace_calls: [u32; MAX_OBJ], finalize_calls: [u32; MAX_OBJ], drop_calls: [u32; MAX_OBJ],
    first_fin_seq: [u32; MAX_OBJ], first_drop_seq: [u32; MAX_OBJ], seq: u32,
    n_trace: u32, n_fin: u32, n_drop: u32,
    trace_not_tracing: u32, fin_while_tracing: u32, drop_while_tracing: u32,
    fin_after_drop: u32, trace_after_drop: u32, fin_saw_dropped_neighbour: u32, canary_broken: u32,
    upgrade_gave_dropped: u32, new_in_finalizer_not_marked_finalized: u32,
    fault_kind: u8, fault_k: u32,
    fin_act: [Act; MAX_OBJ], drop_act: [Act; MAX_OBJ], act_target: [usize; MAX_OBJ],
    failures: Vec<&'static str>,
}
static mut GS: Option<G> = None;
fn g() -> &'static mut G {
    unsafe {
        if GS.is_none() {
            GS = Some(G { trace_calls: [0; MAX_OBJ], finalize_calls: [0; MAX_OBJ], drop_calls: [0; MAX_OBJ], first_fin_seq: [0; MAX_OBJ], first_drop_seq: [0; MAX_OBJ], seq: 0,
                n_trace: 0, n_fin: 0, n_drop: 0, trace_not_tracing: 0, fin_while_tracing: 0, drop_while_tracing: 0, fin_after_drop: 0, trace_after_drop: 0,
                fin_saw_dropped_neighbour: 0, canary_broken: 0, upgrade_gave_dropped: 0, new_in_finalizer_not_marked_finalized: 0, fault_kind: 0, fault_k: 0,
                fin_act: [Act::Nothing; MAX_OBJ], drop_act: [Act::Nothing; MAX_OBJ], act_target: [0; MAX_OBJ], failures: Vec::new() });
        }
        GS.as_mut().unwrap()
    }
}
static mut HELD: [Option<Cc<Node>>; MAX_OBJ] = [None, None, None, None];
static mut STASH: [Option<Cc<Node>>; MAX_OBJ] = [None, None, None, None];
// a raw copy of every node's handle, used only to CLONE from (never dropped): lets callbacks make new pointers
static mut REG: [Option<std::mem::ManuallyDrop<Cc<Node>>>; MAX_OBJ] = [None, None, None, None];
#[cfg(feature = "weak-ptrs")]
static mut WEAKS: [Option<Weak<Node>>; MAX_OBJ] = [None, None, None, None];
static mut BOX_SIZE: usize = 0;

struct Node { id: usize, s0: RefCell<Option<Cc<Node>>>, s1: RefCell<Option<Cc<Node>>>, hidden: RefCell<Option<Cc<Node>>>, v: u64 }
impl Node {
    fn intact(&self) -> bool { self.v == CANARY + self.id as u64 }
    fn slot(&self, s: u8) -> &RefCell<Option<Cc<Node>>> { match s { 0 => &self.s0, 1 => &self.s1, _ => &self.hidden } }
}
struct Leaf(u64);
unsafe impl Trace for Leaf { fn trace(&self, _: &mut Context<'_>) {} }
impl Finalize for Leaf {}

fn clone_of(i: usize) -> Option<Cc<Node>> {
    // REG holds a bitwise duplicate of a handle that is never dropped; cloning it is an ordinary Cc::clone
    unsafe { REG[i].as_ref().map(|m| (**m).clone()) }
}
fn peek_id(c: &RefCell<Option<Cc<Node>>>) -> Option<usize> {
    match c.try_borrow() { Ok(b) => b.as_ref().map(|x| x.id), Err(_) => None }
}
fn do_action(this: &Node, act: Act, target: usize) {
    let id = this.id;
    match act {
        Act::Nothing => {}
        Act::ResurrectSelf => unsafe { if let Some(c) = clone_of(id) { STASH[id] = Some(c); } },
        Act::ResurrectNeighbour => unsafe {
            let c = this.s0.try_borrow().ok().and_then(|b| b.as_ref().map(|c| c.clone()));
            if let Some(c) = c { STASH[id] = Some(c); }
        },
        Act::UpgradeStore => {
            #[cfg(feature = "weak-ptrs")]
            unsafe { if let Some(w) = &WEAKS[target] { if let Some(c) = w.upgrade() { STASH[id] = Some(c); } } }
        }
        Act::UpgradeProbe => {
            #[cfg(feature = "weak-ptrs")]
            unsafe { if let Some(w) = &WEAKS[target] { if let Some(c) = w.upgrade() {
                if g().drop_calls[c.id] != 0 || !c.intact() { g().upgrade_gave_dropped += 1; }
            } } }
        }
        Act::Collect => collect_cycles(),
        Act::Alloc => {
            let c = Cc::new(Leaf(7));
            drop(c);
        }
        Act::ClearSlot0 => { let old = this.s0.try_borrow_mut().ok().and_then(|mut b| b.take()); drop(old); }
        Act::ReleaseHeld => unsafe { let h = HELD[target].take(); drop(h); },
        Act::AllocAuto => {
            #[cfg(feature = "auto-collect")]
            rust_cc::config::config(|c| c.set_auto_collect(true)).unwrap();
            let c = Cc::new(Leaf(9));
            #[cfg(feature = "auto-collect")]
            rust_cc::config::config(|c| c.set_auto_collect(false)).unwrap();
            drop(c);
        }
        Act::ResurrectIntoSelf => { if let Some(c) = clone_of(id) { if let Ok(mut b) = this.s1.try_borrow_mut() { *b = Some(c); } } }
    }
}
unsafe impl Trace for Node {
    fn trace(&self, ctx: &mut Context<'_>) {
        let gs = g();
        gs.n_trace += 1;
        gs.trace_calls[self.id] += 1;
        if !matches!(state::is_tracing(), Ok(true)) { gs.trace_not_tracing += 1; }
        if gs.drop_calls[self.id] != 0 { gs.trace_after_drop += 1; }
        if gs.fault_kind == 1 && gs.n_trace == gs.fault_k { panic!("fault: trace entry"); }
        self.s0.trace(ctx);
        self.s1.trace(ctx);
        if gs.fault_kind == 4 && gs.n_trace == gs.fault_k { panic!("fault: trace exit"); }
    }
}
impl Finalize for Node {
    fn finalize(&self) {
        let gs = g();
        gs.n_fin += 1; gs.seq += 1;
        gs.finalize_calls[self.id] += 1;
        if gs.first_fin_seq[self.id] == 0 { gs.first_fin_seq[self.id] = gs.seq; }
        if matches!(state::is_tracing(), Ok(true)) { gs.fin_while_tracing += 1; }
        if gs.drop_calls[self.id] != 0 { gs.fin_after_drop += 1; }
        if !self.intact() { gs.canary_broken += 1; }
        for s in 0..3u8 { if let Some(n) = peek_id(self.slot(s)) { if gs.drop_calls[n] != 0 { gs.fin_saw_dropped_neighbour += 1; } } }
        if gs.fault_kind == 2 && gs.n_fin == gs.fault_k { panic!("fault: finalize"); }
        do_action(self, gs.fin_act[self.id], gs.act_target[self.id]);
    }
}
impl Drop for Node {
    fn drop(&mut self) {
        let gs = g();
        gs.n_drop += 1; gs.seq += 1;
        gs.drop_calls[self.id] += 1;
        if gs.first_drop_seq[self.id] == 0 { gs.first_drop_seq[self.id] = gs.seq; }
        if matches!(state::is_tracing(), Ok(true)) { gs.drop_while_tracing += 1; }
        if !self.intact() { gs.canary_broken += 1; }
        if gs.fault_kind == 3 && gs.n_drop == gs.fault_k { panic!("fault: drop"); }
        do_action(self, gs.drop_act[self.id], gs.act_target[self.id]);
    }
}

fn mk(n: usize) {
    #[cfg(feature = "auto-collect")]
    rust_cc::config::config(|c| c.set_auto_collect(false)).unwrap();
    for i in 0..n {
        let before = state::allocated_bytes().unwrap();
        let c = Cc::new(Node { id: i, s0: RefCell::new(None), s1: RefCell::new(None), hidden: RefCell::new(None), v: CANARY + i as u64 });
        unsafe {
            BOX_SIZE = state::allocated_bytes().unwrap() - before;
            REG[i] = Some(std::mem::ManuallyDrop::new(std::ptr::read(&c)));
            HELD[i] = Some(c);
        }
    }
}
fn link(from: usize, slot: u8, to: usize) {
    let c = clone_of(to);
    let nd = unsafe { &***REG[from].as_ref().unwrap() };
    let old = std::mem::replace(&mut *nd.slot(slot).borrow_mut(), c);
    drop(old);
}
fn touch(i: usize) { let c = clone_of(i); drop(c); }
fn release(i: usize) { let h = unsafe { HELD[i].take() }; drop(h); }
fn release_stash(i: usize) { let h = unsafe { STASH[i].take() }; drop(h); }
#[cfg(feature = "weak-ptrs")]
fn weak(i: usize) { unsafe { if let Some(h) = &HELD[i] { WEAKS[i] = Some(h.downgrade()); } } }
fn act_fin(i: usize, a: Act, t: usize) { g().fin_act[i] = a; g().act_target[i] = t; }
fn act_drop(i: usize, a: Act, t: usize) { g().drop_act[i] = a; g().act_target[i] = t; }
fn fault(kind: u8, k: u32) { g().fault_kind = kind; g().fault_k = k; }
fn disarm() { g().fault_kind = 0; }
fn collect() { collect_cycles(); }
fn execs() -> usize { state::executions_count().unwrap() }

fn fail(cond: bool, name: &'static str) { if !cond && !g().failures.contains(&name) { g().failures.push(name); } }

fn reach(n: usize) -> [bool; MAX_OBJ] {
    let mut r = [false; MAX_OBJ];
    unsafe {
        for i in 0..n {
            if HELD[i].is_some() { r[i] = true; }
            if let Some(c) = &STASH[i] { r[c.id] = true; }
        }
        for _ in 0..n { for i in 0..n {
            if r[i] && g().drop_calls[i] == 0 {
                let nd = &***REG[i].as_ref().unwrap();
                for s in 0..3u8 { if let Some(j) = peek_id(nd.slot(s)) { r[j] = true; } }
            }
        } }
    }
    r
}
fn ghost_cc(i: usize, n: usize) -> u32 {
    let mut k = 0;
    unsafe { for j in 0..n {
        if let Some(h) = &HELD[j] { if h.id == i { k += 1; } }
        if let Some(h) = &STASH[j] { if h.id == i { k += 1; } }
        if g().drop_calls[j] == 0 {
            let nd = &***REG[j].as_ref().unwrap();
            for s in 0..3u8 { if peek_id(nd.slot(s)) == Some(i) { k += 1; } }
        }
    } }
    k
}
fn check_safety(n: usize, live0: [bool; MAX_OBJ], panic_free: bool) {
    let r = reach(n);
    let mut live = 0usize;
    for i in 0..n {
        let gs = g();
        if r[i] {
            fail(gs.drop_calls[i] == 0, "C01::reachable_object_never_dropped");
            if gs.drop_calls[i] == 0 {
                let nd = unsafe { &***REG[i].as_ref().unwrap() };
                fail(nd.intact(), "C01::reachable_object_value_intact");
            }
        }
        if gs.drop_calls[i] == 0 {
            live += 1;
            let cnt = unsafe { (**REG[i].as_ref().unwrap()).strong_count() };
            let gc = ghost_cc(i, n);
            if panic_free { fail(cnt == gc, "C04::strong_count_equals_number_of_existing_pointers"); }
            else { fail(cnt >= gc, "C04::strong_count_never_too_low_after_caught_panic"); }
        }
        fail(gs.drop_calls[i] <= 1, "C03::dropped_at_most_once");
        fail(gs.finalize_calls[i] <= 1, "C05::finalized_at_most_once");
        if gs.finalize_calls[i] != 0 && gs.drop_calls[i] != 0 { fail(gs.first_fin_seq[i] < gs.first_drop_seq[i], "C05::finalize_before_drop"); }
        if live0[i] { fail(gs.finalize_calls[i] == 0, "C05::live_object_never_finalized"); }
    }
    let gs = g();
    fail(gs.canary_broken == 0, "C03::no_double_drop_no_corruption");
    fail(gs.fin_after_drop == 0 && gs.trace_after_drop == 0, "C05::no_callback_on_dropped_value");
    fail(gs.fin_saw_dropped_neighbour == 0, "C05::finalizer_sees_only_undropped_neighbours");
    fail(gs.trace_not_tracing == 0, "C12::trace_runs_with_is_tracing_true");
    fail(gs.fin_while_tracing == 0 && gs.drop_while_tracing == 0, "C12::finalize_and_drop_run_with_is_tracing_false");
    fail(gs.upgrade_gave_dropped == 0, "C08::upgrade_never_yields_dropped_value");
    fail(!matches!(state::is_tracing(), Ok(true)), "C07::is_tracing_false_outside_collections");
    let bytes = state::allocated_bytes().unwrap();
    if panic_free { fail(bytes == live * unsafe { BOX_SIZE }, "C11::allocated_bytes_equals_sum_of_live_boxes"); }
    else { fail(bytes >= live * unsafe { BOX_SIZE }, "C11::allocated_bytes_at_least_live_boxes_after_caught_panic"); }
}
fn check_reclaimed(n: usize, mask: [bool; MAX_OBJ], due: [bool; MAX_OBJ]) {
    for i in 0..n { if mask[i] {
        fail(g().drop_calls[i] == 1, "C02::unreachable_object_dropped");
        #[cfg(feature = "finalization")]
        fail(g().finalize_calls[i] == if due[i] { 1 } else { 0 }, "C02::unreachable_object_finalized_iff_due");
    } }
}
fn check_all_dropped(n: usize) {
    for i in 0..n { fail(g().drop_calls[i] == 1, "C02::unreachable_object_dropped"); }
    fail(state::allocated_bytes().unwrap() == 0, "C02::allocated_bytes_zero_when_nothing_remains");
}
fn check_quiescent() { let fd0 = (g().n_fin, g().n_drop); collect_cycles(); fail((g().n_fin, g().n_drop) == fd0, "C02::collection_reached_fixpoint"); }
fn check_usable() {
    let c = Cc::new(Leaf(1));
    #[cfg(feature = "finalization")]
    fail(!c.already_finalized(), "C07::after_the_caught_panic_new_objects_are_not_marked_finalized");
    fail(c.try_unwrap().is_ok(), "C07::after_the_caught_panic_try_unwrap_of_a_fresh_unique_pointer_succeeds");
}
fn check_execs(expect: usize) { fail(execs() == expect, "C11::executions_count_plus_one_per_collection"); }
fn check_later_collection(expect: usize) { fail(execs() == expect, "C07::later_collection_can_start"); }
/// run an API call the way a program that catches panics would; returns whether it panicked
fn guarded<F: FnOnce()>(f: F) -> bool { catch_unwind(AssertUnwindSafe(f)).is_err() }
'''

RE_CALL = re.compile(r"^    (collect|release|touch)\((\d*)\);$")


def render(inst):
    """Rust source of the native integration test for `inst`, or None when it needs header access."""
    if inst.fin or inst.stale:
        return None
    body = l2gen.render(inst)
    lines = body.splitlines()
    out = []
    in_fn = False
    for l in lines:
        if l.startswith("pub(crate) fn "):
            in_fn = True
            out.append("#[test]\nfn scenario() {")
            continue
        if not in_fn:
            continue
        if l.strip().startswith("use crate::"):
            continue
        if "kani::cover!" in l or l.strip() == "finish();":
            continue
        l = l.replace("S0", "0").replace("S1", "1").replace("HID", "2")
        if l.strip() == "let c = caught();":
            l = "    let c = PANICKED.with(|p| p.replace(false));"
        if inst.fault and RE_CALL.match(l):
            m = RE_CALL.match(l)
            l = "    if guarded(|| %s(%s)) { PANICKED.with(|p| p.set(true)); }" % (m.group(1), m.group(2))
        if l == "}":
            out.append('    assert!(g().failures.is_empty(), "violated obligations: {:?}", g().failures);')
        out.append(l)
    src = SUPPORT + "thread_local! { static PANICKED: Cell<bool> = Cell::new(false); }\n\n" + "\n".join(out) + "\n"
    if inst.weak or any(v[0].startswith("Upgrade") for v in list(inst.fin_act.values()) + list(inst.drop_act.values())):
        src = src.replace("#[test]\nfn scenario()", '#[cfg(feature = "weak-ptrs")]\n#[test]\nfn scenario()')
    return src


FEATS = {"full": ["--features", "weak-ptrs,cleaners"], "std": ["--no-default-features", "--features", "std"],
         "fin": ["--no-default-features", "--features", "std,finalization"], "finweak": ["--no-default-features", "--features", "std,finalization,weak-ptrs"]}


def run(inst, repo_copy, fs, timeout=900):
    """returns dict(ran, reproduced, failed_obligations, output_tail)"""
    src = render(inst)
    if src is None:
        return {"ran": False, "why": "pre-state needs header access (finalized bit / stale tracing counter): no public-API rendering"}
    name = "verif_replay_" + inst.name()
    path = os.path.join(repo_copy, "tests", name + ".rs")
    open(path, "w").write(src)
    env = dict(os.environ, CARGO_NET_OFFLINE="true", CARGO_TARGET_DIR=os.path.join(repo_copy, "target-native"))
    cmd = ["cargo", "test", "--offline"] + FEATS.get(fs, FEATS["full"]) + ["--test", name]
    try:
        p = subprocess.run(cmd, cwd=repo_copy, env=env, stdout=subprocess.PIPE, stderr=subprocess.STDOUT, text=True, timeout=timeout)
    except subprocess.TimeoutExpired:
        return {"ran": False, "why": "native build/run timed out"}
    out = p.stdout
    ran = "running 1 test" in out
    m = re.search(r"violated obligations: \[(.*?)\]", out)
    obs = re.findall(r'"([^"]+)"', m.group(1)) if m else []
    crashed = ran and "test result:" not in out
    failed = bool(re.search(r"test result: FAILED", out)) or crashed
    return {"ran": ran, "reproduced": failed if ran else None, "failed_obligations": obs, "process_crashed": crashed,
            "cmd": " ".join(cmd), "test_file": "tests/%s.rs" % name, "test_source": src if failed else None, "output_tail": out[-2500:]}


if __name__ == "__main__":
    import sys
    pid, sub = sys.argv[1], sys.argv[2]
    ins = [i for i in l2gen.generate(pid, "thorough", 0) if sub in i.name()]
    print(len(ins), "instances match")
    if ins:
        s = render(ins[0])
        print(s if s else "not renderable")
