#!/bin/sh
# usage: lib/mut.sh <ID> <file-in-repo> <python-replace-old> <new>   (scratch mutation smoke test; always reverts)
ID=$1; F=$2; OLD=$3; NEW=$4; shift 4
python3 - "$F" "$OLD" "$NEW" <<'PY'
import sys
p='/repo/'+sys.argv[1]; s=open(p).read()
assert s.count(sys.argv[2])>=1, "pattern not found"
s=s.replace(sys.argv[2], sys.argv[3],1); open(p,'w').write(s)
PY
[ $? -eq 0 ] || exit 3
cd /verif && VERIF_NO_NATIVE=1 ./check $ID "$@" 2>&1 | grep -v "^WARNING" | tail -8
echo "rc=$?"
git -C /repo checkout -- .
