#!/usr/bin/env python3
"""Regenerates /verif/MANIFEST.json from lib/props.json (single source of truth for claims)."""
import json, os, subprocess
V = os.path.dirname(os.path.dirname(os.path.abspath(__file__)))
props = json.load(open(os.path.join(V, "lib", "props.json")))
checks, na = [], []
for pid in sorted(props):
    p = props[pid]
    if not p.get("claimed"):
        na.append({"property_id": pid, "reason": p.get("na_reason", "no check built yet for this property in this session; not claimed")})
        continue
    checks.append({
        "property_id": pid,
        "quick_cmd": "./check %s --tier quick" % pid,
        "thorough_cmd": "./check %s --tier thorough" % pid,
        "evidence_file": "/verif/evidence/%s.json" % pid,
        "replay_cmd_template": "./check %s --replay {path}" % pid,
        "engine": p.get("engine", "kani-contracts"),
        "level_claimed": {"category": p["level"], "text": p["level_text"], "design_ref": p.get("design_ref", "DESIGN.md section 5")},
        "level_note": p["level_note"],
        "technique": p.get("technique", "contract-based deductive verification: Kani function contracts / contract harnesses on the real functions, discharged by CBMC"),
    })
hooks_commits = subprocess.run(["git", "-C", "/repo", "log", "--format=%H %s", "--grep=verif hook"], stdout=subprocess.PIPE, text=True).stdout.strip().splitlines()
m = {
    "version": 1,
    "setup_cmd": "./setup.sh",
    "hooks": {
        "guard": "cfg(kani)",
        "enable": "cargo kani (sets --cfg kani) with env VERIF_KANI_DIR=<dir with the proof modules (a copy of /verif/kani)> and VERIF_GEN_DIR=<dir containing gen.rs>; the driver ./check snapshots /repo and /verif/kani and sets both",
        "baseline_off_cmd": "cd /repo && cargo test --workspace --no-fail-fast --offline",
        "source_commits": [c.split()[0] for c in hooks_commits],
        "add_only": True,
    },
    "engines": [
        {"name": "kani-contracts", "path": "/verif/kani", "serves_properties": [c["property_id"] for c in checks if c["engine"] != "verus+kani"] ,
         "kind_free_text": "Kani 0.68 function contracts (in place, cfg_attr(kani)) and contract harnesses mounted into the real crate as cfg(kani) child modules; CBMC 6.11 back end"},
        {"name": "verus-trace", "path": "/verif/verus", "serves_properties": [c["property_id"] for c in checks if c["engine"] == "verus+kani"],
         "kind_free_text": "Verus on impl blocks extracted mechanically from /repo/src/trace.rs on every run"},
    ],
    "checks": checks,
    "not_applicable": na,
    "notes": "See DESIGN.md (section 10 = as built). Exit 2 of a check = undecided (lost anchor / build error / timeout / invariant clause without behavioural witness), never an alarm. known_findings.json: no open finding; three defects repaired by fix: commits 3fab952, 9d1fb6c, 684a9c1 in /repo. The fix commit 684a9c1 necessarily moved two adjacent cfg(kani) hook lines.",
}
json.dump(m, open(os.path.join(V, "MANIFEST.json"), "w"), indent=1)
print("claimed:", [c["property_id"] for c in checks])
