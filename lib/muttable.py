#!/usr/bin/env python3
"""usage: lib/muttable.py <campaign log> [<campaign log> ...]  -> markdown table (later logs override earlier ones)"""
import json, os, re, sys
V = os.path.dirname(os.path.dirname(os.path.abspath(__file__)))
rows = {}
for path in sys.argv[1:]:
    for line in open(path, errors="replace"):
        m = re.match(r"== (\S+) (C\d\d) violations=(\d+) :: (.*)$", line.strip())
        if not m:
            continue
        mut, pid, nv, rest = m.group(1), m.group(2), int(m.group(3)), m.group(4)
        obs = re.findall(r"harness=(\S+) features=\S+ obligation=([^|]*)", rest)
        und = len(re.findall(r"UNDECIDED", rest))
        rows[(mut, pid)] = (nv, obs, und)
print("| seeded change | breaks | needs | check run | result | failing obligation(s) (first harnesses) |")
print("|---|---|---|---|---|---|")
for (mut, pid) in sorted(rows):
    nv, obs, und = rows[(mut, pid)]
    meta = {}
    try:
        meta = json.load(open(os.path.join(V, "seeded", mut, "meta.json")))
    except OSError:
        pass
    o = "; ".join("`%s` in %s" % (ob.strip()[:90], h) for h, ob in obs[:2])
    print("| %s | %s | %s | `./check %s --tier quick` | %s | %s |" % (mut, meta.get("breaks_property", "?"), meta.get("needs_to_manifest", "")[:160], pid,
          ("**caught** (%d VIOLATION lines)" % nv) if nv else ("missed" + (" (%d undecided)" % und if und else "")), o))
