#!/bin/sh
# usage: lib/seedimport.sh <agent-out-dir> <new-id>   -- copies an agent's deliverable into seeded/<id>/,
# re-bases the patch onto /repo HEAD (git apply --3way in a scratch worktree; idea unchanged) and confirms it (seedcheck).
SRC=$1; ID=$2; D=/verif/seeded/$ID
mkdir -p $D; cp $SRC/demo.rs $D/demo.rs; cp $SRC/notes.md $D/notes.md 2>/dev/null
W=/tmp/ri_$ID; git -C /repo worktree remove --force $W 2>/dev/null; rm -rf $W
git -C /repo worktree add -q --detach $W HEAD || exit 3
( cd $W && git apply --3way $SRC/patch.diff 2>&1 | tail -2 && git diff HEAD -- src > $D/patch.diff )
git -C /repo worktree remove --force $W
[ -s $D/patch.diff ] || { echo "EMPTY PATCH $ID"; exit 3; }
/verif/lib/seedcheck.sh $D > $D/seedcheck.log 2>&1
tail -8 $D/seedcheck.log
