"""Driver for /verif/check. See DESIGN.md section 2.3."""
import atexit
import glob
import hashlib
import json
import os
import re
import shutil
import subprocess
import sys
import tempfile
import time

import kanirun

VERIF = os.path.dirname(os.path.dirname(os.path.abspath(__file__)))
OUT = os.environ.get("VERIF_OUT", VERIF)   # where evidence/ and replays/ are written (mutation runs use a scratch dir)
KANI_SRC = os.path.join(VERIF, "kani")
KANI_DIR = KANI_SRC          # replaced by the run's snapshot copy in main()


def REPO():
    return kanirun.REPO

# file -> module path of the harnesses it contains (mount points = hooks H1/H2 in /repo)
MODPATH = {
    "root.rs": "verif",
    "lib_proofs.rs": "verif::lib_proofs",
    "l2.rs": "verif::l2",
    "gen.rs": "verif::gen",
    "counter_marker_proofs.rs": "counter_marker::verif_proofs",
    "weak_counter_marker_proofs.rs": "weak::weak_counter_marker::verif_proofs",
    "state_proofs.rs": "state::verif_proofs",
    "config_proofs.rs": "config::verif_proofs",
    "utils_proofs.rs": "utils::verif_proofs",
    "lists_proofs.rs": "lists::verif_proofs",
    "cc_proofs.rs": "cc::verif_proofs",
    "weak_proofs.rs": "weak::verif_proofs",
    "cleaners_proofs.rs": "cleaners::verif_proofs",
    "trace_proofs.rs": "trace::verif_proofs",
}
# where each proof file is mounted (for the hook/anchor check)
MOUNT = {
    "root.rs": "src/lib.rs",
    "counter_marker_proofs.rs": "src/counter_marker.rs",
    "weak_counter_marker_proofs.rs": "src/weak/weak_counter_marker.rs",
    "state_proofs.rs": "src/state.rs",
    "config_proofs.rs": "src/config.rs",
    "utils_proofs.rs": "src/utils.rs",
    "lists_proofs.rs": "src/lists.rs",
    "cc_proofs.rs": "src/cc.rs",
    "weak_proofs.rs": "src/weak/mod.rs",
    "cleaners_proofs.rs": "src/cleaners/mod.rs",
    "trace_proofs.rs": "src/trace.rs",
}

ANNOT_RE = re.compile(r"^\s*//@\s*(.*)$")
FN_RE = re.compile(r"^\s*(?:pub(?:\([a-z]+\))?\s+)?fn\s+([A-Za-z0-9_]+)\s*\(")
PROOF_RE = re.compile(r"^\s*#\[kani::(proof|proof_for_contract)\b(?:\((.*)\))?\]")

ALL_FS = ["full", "finweak", "fin", "std"]


class Harness:
    def __init__(self):
        self.name = None
        self.file = None
        self.props = []
        self.kind = "complete"      # complete | bounded
        self.bound = ""
        self.role = "deciding"      # deciding | helper | canary
        self.feats = ["full"]
        self.fns = []               # functions under contract (anchors), "file.rs:Type::name" or "name"
        self.contract_of = None
        self.timeout = 180
        self.tier = "quick"         # quick | thorough
        self.should_panic = False
        self.note = ""
        self.mustfail = None        # marker fn name: CBMC MUST report a failure located inside it
        self.panic = None           # should_panic harness: the panic message that MUST be the (only) failure
        self.l2 = False             # driver-generated composition instance (oracle names carry the property id)
        self.safety = None          # properties for which a memory-safety failure of this harness counts
        self.alias = {}             # property -> obligation prefixes that also count for it in this harness

    @property
    def fq(self):
        return MODPATH[self.file] + "::" + self.name


def parse_annot(h, text):
    for part in [p.strip() for p in text.split("|")]:
        if not part:
            continue
        if re.fullmatch(r"(C\d\d\s*)+", part):
            h.props = part.split()
        elif part == "complete":
            h.kind = "complete"
        elif part.startswith("bounded"):
            h.kind = "bounded"
            h.bound = part[len("bounded"):].strip(": ")
        elif part in ("deciding", "helper", "canary"):
            h.role = part
        elif part.startswith("feat="):
            h.feats = part[5:].split(",")
        elif part.startswith("fn="):
            h.fns += [x.strip() for x in part[3:].split(",") if x.strip()]
        elif part.startswith("timeout="):
            h.timeout = int(part[8:])
        elif part in ("quick", "thorough"):
            h.tier = part
        elif part.startswith("mustfail="):
            h.mustfail = part[9:]
        elif part.startswith("panic="):
            h.panic = part[6:]
        elif part.startswith("note="):
            h.note = part[5:]
        elif part == "l2":
            h.l2 = True
        elif part.startswith("safety="):
            h.safety = part[7:].split(",")
        elif part.startswith("alias="):
            k, v = part[6:].split(":")
            h.alias[k] = v.split("+")
        else:
            raise SystemExit("bad annotation part %r" % part)


def discover(extra_files=()):
    hs = []
    for path in sorted(glob.glob(os.path.join(KANI_DIR, "*.rs"))) + list(extra_files):
        base = os.path.basename(path)
        if base not in MODPATH:
            continue
        lines = open(path).read().splitlines()
        pending = None
        proof = None
        for i, line in enumerate(lines):
            m = ANNOT_RE.match(line)
            if m:
                if pending is None:
                    pending = Harness()
                    pending.file = base
                parse_annot(pending, m.group(1))
                continue
            m = PROOF_RE.match(line)
            if m:
                proof = m
                if pending is None:
                    pending = Harness()
                    pending.file = base
                if m.group(1) == "proof_for_contract":
                    pending.contract_of = m.group(2).strip()
                continue
            if "#[kani::should_panic]" in line and pending is not None:
                pending.should_panic = True
                continue
            m = FN_RE.match(line)
            if m and proof is not None and pending is not None:
                pending.name = m.group(1)
                if pending.contract_of and not pending.fns:
                    pending.fns = [pending.contract_of]
                hs.append(pending)
                pending = None
                proof = None
                continue
            if line.strip() and not line.strip().startswith("#[") and not line.strip().startswith("//"):
                pending = None if proof is None else pending
    return hs


# ------------------------------------------------------------------------------------------------
def repo_function_index():
    """name -> set of files defining `fn name` in /repo/src (syn-free scan)."""
    idx = {}
    for path in glob.glob(os.path.join(REPO(), "src", "**", "*.rs"), recursive=True):
        if "/tests/" in path:
            continue
        rel = os.path.relpath(path, REPO())
        for line in open(path, errors="replace"):
            m = re.match(r"^\s*(?:#\[[^\]]*\]\s*)*(?:pub(?:\([a-z]+\))?\s+)?(?:const\s+)?(?:unsafe\s+)?fn\s+([A-Za-z0-9_]+)", line)
            if m:
                idx.setdefault(m.group(1), set()).add(rel)
    return idx


def anchor_check(hs):
    idx = repo_function_index()
    lost = []
    for h in hs:
        for f in h.fns:
            name = f.split("::")[-1]
            name = re.sub(r"<.*>", "", name)
            if name not in idx:
                lost.append("%s (harness %s)" % (f, h.name))
    # hooks present?
    for base, src in MOUNT.items():
        if any(h.file == base for h in hs):
            txt = open(os.path.join(REPO(), src)).read()
            if ("\"/" + base + "\"") not in txt:
                lost.append("hook mount for %s missing in %s" % (base, src))
    return lost


UNWIND_SITES = [
    ("src/lib.rs", r"CcBox::trace_inner\(ptr, &mut ctx\);"),
    ("src/lib.rs", r"^\s*__trace_counting\(ptr, root_list, non_root_list, queue\);"),
    ("src/lib.rs", r"^\s*__trace_roots\(ptr, non_root_list, &mut queue\);"),
    ("src/lib.rs", r"^\s*trace_counting\(possible_cycles,"),
    ("src/lib.rs", r"^\s*trace_roots\(root_list,"),
    ("src/lib.rs", r"^\s*__collect\(state, possible_cycles\);"),
    ("src/lib.rs", r"^\s*collect\(state, pc\);"),
    ("src/lib.rs", r"^\s*deallocate_list\(non_root_list, state\);"),
    ("src/lib.rs", r"^\s*\}\);\s*$"),   # end of a fold / for_each closure that ran callbacks (checked only when it follows finalize_inner / drop_inner)
    ("src/cc.rs", r"self\.inner\(\)\.get_elem\(\)\.finalize\(\);"),
    ("src/cc.rs", r"^\s*drop_in_place\(self\.inner\(\)\.get_elem_mut\(\)\);"),
    ("src/cc.rs", r"trigger_collection\(state\);"),
    ("src/weak/mod.rs", r"let to_write = f\(&weak\);"),
    ("src/weak/mod.rs", r"trigger_collection\(state\);"),
]


def unwind_hook_check():
    """A-UNWIND cross-check (DESIGN 2.5): every call site that can run user code is followed by an H4 hook
    (or is the last statement of its block).  Returns the list of unhooked sites."""
    missing = []
    n_sites = 0
    for rel, pat in UNWIND_SITES:
        path = os.path.join(REPO(), rel)
        if not os.path.exists(path):
            continue
        lines = open(path).read().splitlines()
        for i, line in enumerate(lines):
            if "fn " in line and "(" in line and line.strip().startswith(("fn ", "pub fn", "pub(crate) fn", "pub(super) fn")):
                continue
            if not re.search(pat, line) or "verification hook" in line:
                continue
            if pat.startswith(r"^\s*\}\);"):
                # only closures whose body called a callback dispatcher
                body = "\n".join(lines[max(0, i - 12):i])
                if "finalize_inner(" not in body and "drop_inner(" not in body:
                    continue
            n_sites += 1
            nxt = [l for l in lines[i + 1:i + 4] if l.strip() and not l.strip().startswith("//")][:2]
            ok = any("verification hook (H4)" in l for l in lines[i + 1:i + 4]) or (nxt and nxt[0].strip().startswith("}"))
            if not ok:
                missing.append("%s:%d: %s" % (rel, i + 1, line.strip()[:80]))
    return n_sites, missing


def limit_hook_check():
    """H5 cross-check (DESIGN 10.7): every counter-limit `panic!("Too many references ...")` site of the crate is
    immediately preceded by an H5 hook, so the `*_at_max_unwinds_leaving_everything` contracts really run the
    unwind out of that site.  Returns (number of sites, list of unhooked sites)."""
    missing = []
    n = 0
    for rel in ("src/cc.rs", "src/weak/mod.rs"):
        path = os.path.join(REPO(), rel)
        if not os.path.exists(path):
            continue
        lines = open(path).read().splitlines()
        for i, line in enumerate(lines):
            if 'panic!("Too many references' not in line:
                continue
            n += 1
            if i == 0 or "verification hook (H5)" not in lines[i - 1]:
                missing.append("%s:%d: %s" % (rel, i + 1, line.strip()[:80]))
    return n, missing


def scan_assumptions(files):
    """Mechanical scan: every kani::assume / stub / should_panic in the proof files used."""
    out = []
    for base in sorted(set(files)):
        path = os.path.join(KANI_DIR, base)
        if not os.path.exists(path):
            continue
        for i, line in enumerate(open(path), 1):
            if re.search(r"kani::assume\(|#\[kani::stub|kani::stub_verified|#\[kani::should_panic", line):
                out.append("%s:%d: %s" % (base, i, line.strip()[:160]))
    return out


def load_known():
    p = os.path.join(VERIF, "known_findings.json")
    if not os.path.exists(p):
        return {"findings": [], "fixed": []}
    return json.load(open(p))


def sha(path):
    return hashlib.sha256(open(path, "rb").read()).hexdigest()[:16]


PROP_META = None


def prop_meta(pid):
    global PROP_META
    if PROP_META is None:
        PROP_META = json.load(open(os.path.join(VERIF, "lib", "props.json")))
    return PROP_META[pid]


# ------------------------------------------------------------------------------------------------
_OBL = None


def obligation_names():
    """Every string literal used as a kani::assert message in the proof files = our named obligations."""
    global _OBL
    if _OBL is None:
        _OBL = set()
        for path in glob.glob(os.path.join(KANI_DIR, "*.rs")):
            _OBL.update(re.findall(r'"([A-Za-z_][A-Za-z0-9_<>]*(?:::[A-Za-z0-9_<>]+)+[^"]*)"', open(path).read()))
    return _OBL


def classify_failure(chk):
    """Kind of a failed CBMC check: 'unwind' (bound too small: undecided), 'named' (our obligation),
    'contract' (F1 clause), 'safety' (memory safety / arithmetic / panic in the real code)."""
    d = chk["description"]
    if "unwinding assertion" in d or "recursion unwinding" in d:
        return "unwind"
    if d in obligation_names():
        return "named"
    if "::contract::ensures" in d or ("Check that" in d and "assignable" in d):
        return "contract"
    return "safety"


def main(a):
    t_start = time.time()
    pid = a.prop
    if a.replay:
        # re-run exactly the harness / instance recorded in the replay file against the CURRENT tree
        rep = json.load(open(a.replay))
        if rep.get("engine") == "verus":
            import verus_trace
            scratch0 = tempfile.mkdtemp(prefix="verif-replay-", dir=os.environ.get("VERIF_SCRATCH", "/var/tmp"))
            atexit.register(lambda: shutil.rmtree(scratch0, ignore_errors=True))
            kanirun.snapshot(scratch0, KANI_SRC)
            erc, _, lines = verus_trace.run(pid, scratch0, a.tier)
            for l in lines:
                print(l)
            print("REPLAY property=%s %s" % (pid, "reproduced" if erc == 1 else "not reproduced"))
            return erc
        a.only = rep["harness"].split("::")[-1]
        print("REPLAY property=%s harness=%s obligations=%s" % (pid, a.only, "; ".join(o["obligation"] for o in rep.get("failed_obligations", []))[:300]))
    meta = prop_meta(pid) if pid != "ALL" else {"level": "proof"}
    seed = int(os.environ.get("VERIF_SEED", "0"))
    global KANI_DIR
    scratch_root = os.environ.get("VERIF_SCRATCH", "/var/tmp")
    scratch = tempfile.mkdtemp(prefix="verif-%s-" % pid, dir=scratch_root)
    if not a.keep:
        atexit.register(lambda: shutil.rmtree(scratch, ignore_errors=True))
    _, KANI_DIR = kanirun.snapshot(scratch, KANI_SRC)
    gen_path = os.path.join(scratch, "gen.rs")
    n_l2 = 0
    n_l2_total = 0
    if meta.get("l2", pid == "ALL") and not os.environ.get("VERIF_NO_L2"):
        import l2gen
        insts = l2gen.generate(pid, a.tier, seed)
        if a.only:
            insts = [i for i in insts if a.only in i.name()]
        cap = int(os.environ.get("VERIF_L2_MAX", meta.get("l2_max_" + a.tier, 100000)))
        n_l2_total = len(insts)
        insts = l2gen.select(insts, cap, seed)
        l2gen.write(gen_path, insts)
        n_l2 = len(insts)
    hs_all = discover([gen_path] if n_l2 else [])
    hs = [h for h in hs_all if pid in h.props or h.role == "canary" or pid == "ALL"]
    if a.tier == "quick":
        hs = [h for h in hs if h.tier == "quick"]
    if a.only:
        hs = [h for h in hs if a.only in h.name or h.role == "canary"]
    if a.list:
        for h in hs:
            print("%-60s %-9s %-8s %s %s" % (h.fq, h.kind, h.role, ",".join(h.feats), ",".join(h.fns)))
        return 0
    extra = meta.get("engine_extra")  # e.g. verus part for C17
    if not [h for h in hs if h.role != "canary"] and not extra:
        print("no harnesses registered for %s" % pid)
        return 2

    lost = anchor_check(hs)
    if meta.get("unwind_emulation"):
        n_sites, missing = unwind_hook_check()
        if missing:
            lost += ["call site that can run user code without an unwind hook (A-UNWIND incomplete): " + m for m in missing]
    if pid == "C16":
        n_lim, missing = limit_hook_check()
        if missing or n_lim < 4:
            lost += ["counter-limit panic site without an H5 hook (%d sites found): %s" % (n_lim, "; ".join(missing))]
    if lost:
        print("UNDECIDED property=%s lost anchors: %s" % (pid, "; ".join(lost)))
        return 2

    # feature sets needed
    fs_needed = []
    jobs = []
    for h in hs:
        feats = h.feats if a.tier == "thorough" else h.feats[:1] if h.role != "canary" else ["full"]
        if h.role == "canary":
            feats = ["full"]
        for fs in feats:
            if fs not in fs_needed:
                fs_needed.append(fs)
            jobs.append({"fs": fs, "harness": h.fq, "timeout": h.timeout, "h": h, "weight": max(1, h.timeout // 60) if not h.l2 else 1, "noreach": h.l2})
    build_times = {}
    tdirs = {fs: os.path.join(scratch, "target-" + fs) for fs in fs_needed}
    import concurrent.futures as _cf
    with _cf.ThreadPoolExecutor(max_workers=4) as ex:
        futs = {fs: ex.submit(kanirun.build, tdirs[fs], fs, os.path.join(scratch, "build-%s.log" % fs)) for fs in fs_needed}
        for fs, f in futs.items():
            try:
                build_times[fs] = f.result()
            except kanirun.BuildError as e:
                print("UNDECIDED property=%s %s" % (pid, e))
                return 2
    results = kanirun.run_many(tdirs, jobs, nproc=a.jobs, scratch=scratch)

    # ---------------------------------------------------------------- verdict
    known = load_known()
    violations = []     # (harness, fs, obligation, kind)
    other_prop = []     # L2 failures that belong to another property's check
    n_info = n_info_sat = 0
    undecided = []
    known_hit = []
    n_checks = n_ok = n_unreach = 0
    per_harness = []
    canary_ok = False
    for j, r in zip(jobs, results):
        h = j["h"]
        failed = [c for c in r["checks"] if c["status"] == "FAILURE"]
        succ = [c for c in r["checks"] if c["status"] == "SUCCESS"]
        unreach = [c for c in r["checks"] if c["status"] == "UNREACHABLE"]
        undet = [c for c in r["checks"] if c["status"] == "UNDETERMINED"]
        covers_all = [c for c in r["checks"] if c["status"] in ("SATISFIED", "UNSATISFIABLE")]
        # `info::` covers are measurements (e.g. did the armed fault fire in this scenario?), not vacuity guards
        info = [c for c in covers_all if c["description"].startswith("info::")]
        covers = [c for c in covers_all if not c["description"].startswith("info::")]
        n_info_sat += sum(1 for c in info if c["status"] == "SATISFIED")
        n_info += len(info)
        if h.role == "canary":
            canary_ok = r["status"] == "FAILED" and any("canary" in c["description"] for c in failed)
            continue
        n_checks += len(succ) + len(failed) + len(undet)   # reachable checks; unreachable ones are counted separately
        n_ok += len(succ)
        n_unreach += len(unreach)
        rec = {"harness": h.fq, "fs": r["fs"], "kind": h.kind + ((" (" + h.bound + ")") if h.bound else ""),
               "role": h.role, "status": r["status"], "checks": len(r["checks"]), "failed": len(failed),
               "unreachable": len(unreach), "wall_s": round(r["wall"], 2), "solver_s": r["verification_time"],
               "functions": h.fns}
        per_harness.append(rec)
        # vacuity: named obligations must be reachable, covers must be satisfied
        vac = [c for c in unreach if classify_failure(c) == "named"] + [c for c in covers if c["status"] == "UNSATISFIABLE"]
        if h.kind != "complete":
            vac = [c for c in covers if c["status"] == "UNSATISFIABLE"]
        if vac and r["status"] == "SUCCESSFUL":
            undecided.append("%s: vacuous obligation(s): %s" % (h.name, "; ".join(c["description"] for c in vac[:4])))
        if h.mustfail:
            exp = [c for c in failed if h.mustfail in c["location"]]
            other = [c for c in failed if h.mustfail not in c["location"]]
            if r["status"] in ("SUCCESSFUL", "FAILED") and not exp:
                violations.append((h, r, {"description": "%s::post::releases_memory (expected CBMC failure inside %s did not occur)" % (h.fns[0] if h.fns else h.name, h.mustfail), "location": "", "id": ""}, "named"))
                continue
            if r["status"] == "FAILED" and exp and not other:
                n_ok += len(exp)
                n_checks -= len(undet)   # checks after the expected failure point are not obligations of this harness
                rec["status"] = "SUCCESSFUL(expected-failure)"
                continue
            failed = other
        if h.should_panic and r["status"] in ("SUCCESSFUL", "FAILED"):
            # the expected panic must be there; any OTHER failed check is a real failure of this harness
            want = h.panic or ""
            exp = [c for c in failed if want in c["description"]] if want else failed
            other = [c for c in failed if c not in exp]
            if not exp:
                violations.append((h, r, {"description": "%s::post::panics (expected panic %r did not occur)" % (h.fns[0] if h.fns else h.name, want), "location": "", "id": ""}, "named"))
                continue
            if not other:
                n_ok += len(exp)
                n_checks -= len(undet)
                rec["status"] = "SUCCESSFUL(expected-panic)"
                continue
            failed = other
            r = dict(r, status="FAILED")
        if r["status"] == "SUCCESSFUL":
            continue
        if r["status"] in ("TIMEOUT", "ERROR", "MISSING", "UNKNOWN"):
            undecided.append("%s [%s]: %s" % (h.name, r["fs"], r["status"]))
            os.makedirs(os.path.join(OUT, "replays"), exist_ok=True)
            with open(os.path.join(OUT, "replays", "last-error-%s-%s.log" % (pid, h.name)), "w") as f:
                f.write(r["raw"][-20000:])
            continue
        # FAILED
        kinds = {}
        for c in failed:
            kinds.setdefault(classify_failure(c), []).append(c)
        real = kinds.get("named", []) + kinds.get("contract", []) + kinds.get("safety", [])
        if not real and kinds.get("unwind"):
            undecided.append("%s [%s]: unwinding bound too small (%s)" % (h.name, r["fs"], kinds["unwind"][0]["description"]))
            continue
        if not real:
            undecided.append("%s [%s]: FAILED without failed checks" % (h.name, r["fs"]))
            continue
        inv_only = []
        took = 0
        for c in real:
            k = classify_failure(c)
            if h.l2:
                d = c["description"]
                m = re.match(r"(C\d\d)::", d)
                if k == "named" and m and m.group(1) != pid and m.group(1) not in h.alias.get(pid, []):
                    other_prop.append("%s: %s" % (h.name, d))      # reported by that property's own check
                    continue
                if k == "named" and d.startswith("Inv_idle::"):
                    inv_only.append(d)
                    continue
                if k == "safety" and h.safety and pid not in h.safety:
                    other_prop.append("%s: %s" % (h.name, d))
                    continue
            violations.append((h, r, c, k))
            took += 1
        if inv_only and not took:
            # an invariant clause alone is not a property violation (DESIGN 2.3 step 5): undecided
            undecided.append("%s [%s]: invariant clause failed without a behavioural witness: %s" % (h.name, r["fs"], "; ".join(sorted(set(inv_only)))[:300]))

    if not canary_ok and not a.only:
        undecided.append("canary harness did not fail: the pipeline cannot see failures")

    # known findings filter
    new_viol = []
    for (h, r, c, k) in violations:
        ob = c["description"]
        kf = None
        for f in known.get("findings", []):
            if f["property"] == pid and f["harness"] == h.name and (f.get("obligation") in (None, "", ob) or f.get("obligation") in ob):
                kf = f
                break
        if kf:
            known_hit.append((kf, ob))
        else:
            new_viol.append((h, r, c, k))

    printed = set()
    for kf, ob in known_hit:
        key = (kf["harness"], kf.get("obligation"))
        if key in printed:
            continue
        printed.add(key)
        print("KNOWN-FINDING: property=%s %s [%s :: %s]" % (pid, kf["what"], kf["harness"], kf.get("obligation") or ob))

    rc = 0
    replay_paths = []
    helper_only = bool(new_viol) and all(h.role == "helper" for (h, r, c, k) in new_viol)
    if new_viol and not helper_only:
        import replay
        by_h = {}
        for (h, r, c, k) in new_viol:
            by_h.setdefault((h.fq, r["fs"]), []).append((h, r, c, k))
        import concurrent.futures as _cf2
        keys = list(by_h.keys())

        def _do(i):
            items = by_h[keys[i]]
            h, r = items[0][0], items[0][1]
            fs = keys[i][1]
            # counterexample extraction for the first 6 failing harnesses only (time budget); the
            # others still get a replay file naming the failed obligation and the verifier output
            return replay.make_replay(pid, h, r, [c for (_, _, c, _) in items], tdirs[fs], scratch, extract=(i < 6))
        with _cf2.ThreadPoolExecutor(max_workers=3) as ex:
            outs = list(ex.map(_do, range(len(keys))))
        for i, (path, found_input) in enumerate(outs):
            items = by_h[keys[i]]
            h, fs = items[0][0], keys[i][1]
            replay_paths.append(path)
            obs = "; ".join(sorted(set(c["description"] for (_, _, c, _) in items)))[:300]
            print("FAILED-OBLIGATION property=%s harness=%s features=%s obligation=%s" % (pid, h.name, fs, obs))
            print("VIOLATION property=%s replay=%s%s" % (pid, path, "" if found_input else " no-failing-input-found"))
        rc = 1
    elif helper_only:
        for (h, r, c, k) in new_viol:
            undecided.append("helper contract failed: %s :: %s" % (h.name, c["description"]))

    if rc == 0 and undecided:
        for u in undecided:
            print("UNDECIDED property=%s %s" % (pid, u))
        rc = 2

    # extra engines (Verus for C17)
    extra_ev = None
    if extra in ("verus_trace", "native_limits") and not a.only:
        if extra == "verus_trace":
            import verus_trace as _eng
        else:
            import native_extra as _eng
        erc, extra_ev, lines = _eng.run(pid, scratch, a.tier)
        for l in lines:
            print(l)
        if erc == 1:
            rc = 1
        elif erc == 2 and rc == 0:
            rc = 2

    if a.only:
        for o in other_prop:
            print("OTHER-PROPERTY-FAILURE " + o)
        for rec in per_harness:
            print(json.dumps(rec))
        return rc

    # ---------------------------------------------------------------- evidence
    wall = time.time() - t_start
    complete = [p for p in per_harness if p["kind"].startswith("complete")]
    bounded = [p for p in per_harness if p["kind"].startswith("bounded")]
    fns = sorted(set(f for p in per_harness for f in p["functions"]))
    assumptions = list(meta.get("assumptions", []))
    assumptions += ["assume/stub scan: " + s for s in scan_assumptions([h.file for h in hs if h.role != "canary"])]
    level = meta["level"]
    cov = {
        "obligations": n_checks,
        "discharged": n_ok,
        "unreachable_checks": n_unreach,
        "checker_cmd": "cargo kani " + " ".join(kanirun.KANI_FLAGS) + " <features> --harness <H> --exact " + " ".join(kanirun.CBMC_ARGS),
        "trusted_base": meta.get("trusted_base", []) + ["Kani 0.68.0", "CBMC 6.11.0 (CaDiCaL)", "rustc drop elaboration", "TLS shim (single thread)"],
        "back_end": "Kani 0.68 -> CBMC 6.11 (SAT: CaDiCaL)",
        "harnesses": per_harness,
        "functions_under_contract": fns,
        "complete_harnesses": len(complete),
        "bounded_harnesses": len(bounded),
        "evaluations": len(per_harness),
        "distinct_nontrivial": len(set(p["harness"] for p in per_harness if p["checks"] > 0)),
        "rule": "one evaluation = one contract harness (fully symbolic pre-state, loop-free => complete) or one driver-enumerated bounded instance; non-trivial = CBMC generated at least one check and every named obligation was reachable",
        "samples": [p["harness"] + " [" + p["fs"] + "] " + p["kind"] for p in per_harness[:12]],
        "solver_time_s": round(sum((p["solver_s"] or 0) for p in per_harness), 2),
        "build_time_s": {k: round(v, 1) for k, v in build_times.items()},
        "undecided": undecided,
        "failures_attributed_to_other_properties": other_prop[:40],
        "l2_instances": n_l2,
        "fault_instances": n_info,
        "fault_instances_in_which_the_fault_fired_and_was_caught": n_info_sat,
        "l2_instances_available_in_tier": n_l2_total if n_l2 else 0,
        "known_findings_hit": [kf["what"] for kf, _ in known_hit],
        "repo_head": subprocess.run(["git", "-C", kanirun.REAL_REPO, "rev-parse", "HEAD"], stdout=subprocess.PIPE, text=True).stdout.strip(),
        "repo_dirty": bool(subprocess.run(["git", "-C", kanirun.REAL_REPO, "status", "--porcelain", "--untracked-files=no"], stdout=subprocess.PIPE, text=True).stdout.strip()),
        "exhaustive": False,
    }
    if extra_ev and extra == "verus_trace":
        cov["verus"] = extra_ev
        cov["obligations"] += extra_ev.get("obligations", 0)
        cov["discharged"] += extra_ev.get("discharged", 0)
        cov["functions_under_contract"] = sorted(set(cov["functions_under_contract"]) | set(extra_ev.get("functions", [])))
    elif extra_ev:
        cov.update(extra_ev)   # bounded native stand-in: reported, never added to obligations/discharged
    if level == "model_checking":
        cov["explanation"] = meta.get("level_explanation", "")
    ev = {
        "property_id": pid,
        "tier": a.tier,
        "seed": seed,
        "level": level,
        "coverage": cov,
        "assumptions": assumptions,
        "wall_s": round(wall, 1),
        "violations": len(replay_paths),
    }
    os.makedirs(os.path.join(OUT, "evidence"), exist_ok=True)
    with open(os.path.join(OUT, "evidence", pid + ".json"), "w") as f:
        json.dump(ev, f, indent=1)
    print("%s %s: %d harnesses, %d/%d checks discharged, %d undecided, %d violations, %.0fs" % (
        pid, a.tier, len(per_harness), n_ok, n_checks, len(undecided), len(replay_paths), wall))
    return rc
