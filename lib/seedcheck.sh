#!/bin/sh
# usage: lib/seedcheck.sh <seeded-dir> [features]   -- confirms a seeded mutation in a scratch worktree:
#   demo passes on HEAD, patch applies, crate builds, demo fails with the patch, baseline suite unchanged.
D=$(cd "$1" && pwd); F=${2:-"--features weak-ptrs,cleaners"}
W=/tmp/sc_$(basename $D)
git -C /repo worktree remove --force $W 2>/dev/null; rm -rf $W
git -C /repo worktree add -q --detach $W HEAD || exit 3
cp $D/demo.rs $W/tests/seed_demo.rs
cd $W
echo "--- demo on unchanged HEAD"
timeout 900 cargo test --offline $F --test seed_demo 2>&1 | grep -E "^test result|^error" | head -3
echo "--- apply patch"
git apply --3way $D/patch.diff 2>&1 | tail -3 || { echo "PATCH DOES NOT APPLY"; }
git status --short | head -5
echo "--- demo with patch"
timeout 900 cargo test --offline $F --test seed_demo 2>&1 | grep -E "^test result|^error|could not compile" | head -3
echo "--- baseline suite with patch"
rm tests/seed_demo.rs
timeout 1800 cargo test --workspace --no-fail-fast --offline 2>&1 | grep -E "^test result|^error" | awk '{print $3,$4,$5,$6,$7}' | tr '\n' ';'
echo
cd /; git -C /repo worktree remove --force $W
