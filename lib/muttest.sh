#!/bin/sh
# usage: lib/muttest.sh <seeded-dir> <tier> <prop> [<prop>...]
# Runs the registered checks against a scratch copy of /repo with the seeded patch applied
# (VERIF_REPO points the driver at the copy; evidence/replays go to a scratch output dir).
D=$(cd "$1" && pwd); TIER=$2; shift 2
N=$(basename $D)
R=/var/tmp/mutrepo_$N; O=/var/tmp/mutout_$N
rm -rf $R $O; mkdir -p $O
rsync -a --exclude /target --exclude /.git /repo/ $R/
( cd $R && git init -q . >/dev/null 2>&1 && git apply $D/patch.diff ) || { echo "PATCH DOES NOT APPLY: $N"; exit 3; }
cd "$(dirname "$0")/.."
for p in "$@"; do
  out=$(VERIF_REPO=$R VERIF_OUT=$O VERIF_NO_NATIVE=1 ./check $p --tier $TIER $MUT_ARGS 2>&1 | grep -v "^WARNING")
  v=$(echo "$out" | grep -c "^VIOLATION")
  echo "== $N $p violations=$v :: $(echo "$out" | grep "^FAILED-OBLIGATION" | sed 's/FAILED-OBLIGATION property=[A-Z0-9]* //' | cut -c1-260 | head -3 | tr '\n' '|') $(echo "$out" | grep "^UNDECIDED" | cut -c1-200 | head -2 | tr '\n' '|') $(echo "$out" | tail -1)"
done
rm -rf $R
