"""Native re-execution of a Kani counterexample on the real code (`cargo kani playback`)."""
import os
import re
import shutil
import subprocess

import kanirun

VERIF = os.path.dirname(os.path.dirname(os.path.abspath(__file__)))


def run_native(h, fs, test_src, scratch):
    """Writes the generated unit test into a scratch file that /verif/kani/root.rs includes under
    cfg(kani) + env VERIF_PLAYBACK_FILE, runs it with `cargo kani playback`.  Returns a dict."""
    pb = os.path.join(scratch, "gen.rs")
    saved = open(pb).read() if os.path.exists(pb) else ""
    # the generated test refers to the harness by its bare name; qualify it
    test_src = test_src[test_src.index("#[test]"):] if "#[test]" in test_src else test_src
    body = test_src.replace("kani::concrete_playback_run(concrete_vals, %s)" % h.name,
                            "kani::concrete_playback_run(concrete_vals, crate::%s)" % h.fq)
    with open(pb, "w") as f:
        f.write(saved + "\n" + body)
    m = re.search(r"fn (kani_concrete_playback_[A-Za-z0-9_]+)", body)
    if not m:
        return {"ran": False, "why": "no test fn in playback source"}
    test_name = m.group(1)
    env = dict(kanirun.ENV, VERIF_GEN_DIR=scratch)
    env["CARGO_TARGET_DIR"] = os.path.join(scratch, "target-playback")
    cmd = ["cargo", "kani", "playback", "--lib", "-Z", "concrete-playback", "-Z", "function-contracts",
           "-Z", "stubbing", "-Z", "unstable-options", "-Z", "mem-predicates"] + kanirun.FEATURE_SETS[fs] + ["--", test_name]
    try:
        p = subprocess.run(cmd, cwd=kanirun.REPO, env=env, stdout=subprocess.PIPE, stderr=subprocess.STDOUT, text=True, timeout=600)
    except subprocess.TimeoutExpired:
        return {"ran": False, "why": "playback build/run timed out"}
    out = p.stdout
    with open(pb, "w") as f:
        f.write(saved)
    ran = "running 1 test" in out or "test result:" in out
    failed = bool(re.search(r"test result: FAILED|panicked at", out))
    return {"ran": ran, "reproduced": (failed if ran else None), "cmd": " ".join(cmd), "output_tail": out[-3000:]}
