"""Bounded native stand-ins (labelled bounded, never counted as proved): concrete executions of the real
crate through its public API with real unwinding, for clauses that neither verifier can reach.
C16: the operations AT the limits (16382 / 32767) with real unwinding out of the crate's own panic sites
(Kani = panic=abort: the path ends at the panic) and the object's later life."""
import json
import os
import re
import subprocess
import time

import kanirun

VERIF = os.path.dirname(os.path.dirname(os.path.abspath(__file__)))
OUT = os.environ.get("VERIF_OUT", VERIF)

TESTS = {"C16": ("c16_limits.rs", ["--features", "weak-ptrs,cleaners"],
                 "two concrete executions at the limits: 16382 strong pointers reached by alternating clone/upgrade on an object with a side record, 32767 weak pointers reached by alternating downgrade/Weak::clone; the four operations that must panic, counts/flags afterwards, then collection / finalization once / drop once / all memory released")}


def run(pid, scratch, tier):
    fname, feats, bound = TESTS[pid]
    repo = kanirun.REPO
    src = open(os.path.join(VERIF, "native", fname)).read()
    name = "verif_native_" + fname[:-3]
    open(os.path.join(repo, "tests", name + ".rs"), "w").write(src)
    env = dict(os.environ, CARGO_NET_OFFLINE="true", CARGO_TARGET_DIR=os.path.join(scratch, "target-native"))
    cmd = ["cargo", "test", "--offline"] + feats + ["--test", name]
    t0 = time.time()
    lines = []
    try:
        p = subprocess.run(cmd, cwd=repo, env=env, stdout=subprocess.PIPE, stderr=subprocess.STDOUT, text=True, timeout=1200)
        out = p.stdout
    except subprocess.TimeoutExpired:
        lines.append("UNDECIDED property=%s native bounded check timed out" % pid)
        return 2, {"native_bounded": {"status": "timeout"}}, lines
    tests = re.findall(r"^test (\S+) \.\.\. (\w+)", out, re.M)
    # a failing scenario can abort the test process (panic while unwinding): every expected test that did not
    # report `ok` counts as failed
    expected = re.findall(r"#\[test\]\s*fn (\w+)", src)
    seen = {n for n, _ in tests}
    if "running" in out and re.search(r"running \d+ tests?", out):
        tests += [(n, "CRASHED") for n in expected if n not in seen]
    ev = {"native_bounded": {"kind": "bounded (native, concrete): " + bound, "cmd": " ".join(cmd), "tests": [{"name": n, "result": r} for n, r in tests],
                             "wall_s": round(time.time() - t0, 1), "counted_as_proved": False}}
    if not tests:
        errs = [l for l in out.splitlines() if l.startswith("error")][:3]
        lines.append("UNDECIDED property=%s native bounded check did not build/run: %s" % (pid, "; ".join(errs) or out[-300:]))
        return 2, ev, lines
    failed = [n for n, r in tests if r != "ok"]
    if not failed:
        return 0, ev, lines
    os.makedirs(os.path.join(OUT, "replays"), exist_ok=True)
    msgs = re.findall(r"panicked at tests/[^\n]*\n([^\n]*)", out)
    for n in failed:
        path = os.path.join(OUT, "replays", "%s-native-%s.json" % (pid, n))
        ob = "%s::native_limits::%s" % (pid, n)
        json.dump({"property": pid, "engine": "native (bounded stand-in)", "failed_obligations": [{"obligation": ob, "messages": msgs[:6]}],
                   "counterexample": {"test_file": "native/" + fname, "test": n, "cmd": " ".join(cmd)},
                   "native_replay": {"ran": True, "reproduced": True}, "verifier_output_tail": out[-5000:]}, open(path, "w"), indent=1)
        lines.append("FAILED-OBLIGATION property=%s engine=native-bounded obligation=%s : %s" % (pid, ob, "; ".join(msgs[:2])[:200]))
        lines.append("VIOLATION property=%s replay=%s" % (pid, path))
    return 1, ev, lines
