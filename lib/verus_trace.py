"""C17, Verus part: the container Trace impls of /repo/src/trace.rs, extracted mechanically on every
run and verified against the trait-level contract

    fn trace(&self, ctx: &mut Context<'_>)
        ensures final(ctx).visited@ == old(ctx).visited@ + self.owned();

`visited` is a ghost sequence of Cc identities; `Cc<T>::owned() == [id]` (the leaf, trusted here: its real
counterpart CcBox::trace is under Kani contracts); `owned()` of a container is the concatenation of
the `owned()` of its elements in order.  So the postcondition says: every owned Cc exactly once, in
order, and nothing else - parametric in the element types and unbounded in length.

What the extraction does to the source text (everything else is byte-identical, SHA-256 recorded):
  * drops the `unsafe` keyword of `unsafe impl`, and the `$crate::trace::` path prefixes of the tuple macro;
  * expands the `tuple_finalize_trace!` macro body textually for the arities listed in
    `tuple_finalize_traces!` (a mini expander for `$( ... )sep*` repetitions over `$args`);
  * inserts, per impl, the spec function `owned()` (CONTRACTS below, keyed by impl header);
  * rewrites `for elem in self {BODY}` into `for elem in it: self invariant ... {ghost-prelude BODY ghost-postlude}`
    (BODY verbatim) and appends one extensionality hint at the end of each `trace` body.
Not covered here (Kani probes cover them): RefCell (interior mutability is outside Verus' dialect), the
Deref-based wrappers Box/ManuallyDrop/AssertUnwindSafe, every Finalize impl (no context to carry ghost state).
"""
import hashlib
import json
import os
import re
import subprocess
import time

import kanirun

VERIF = os.path.dirname(os.path.dirname(os.path.abspath(__file__)))
OUT = os.environ.get("VERIF_OUT", VERIF)

PRELUDE = '''use vstd::prelude::*;
verus! {

pub struct Context<'a> {
    pub visited: Ghost<Seq<int>>,
    pub _p: core::marker::PhantomData<&'a ()>,
}

pub trait Trace {
    spec fn owned(&self) -> Seq<int>;
    fn trace(&self, ctx: &mut Context<'_>)
        ensures final(ctx).visited@ == old(ctx).visited@ + self.owned();
}

// the leaf: a Cc reports exactly itself (trusted here; CcBox::trace is under Kani contracts)
pub struct Cc<T> { pub id: u64, pub _t: core::marker::PhantomData<T> }
impl<T> Trace for Cc<T> {
    open spec fn owned(&self) -> Seq<int> { seq![self.id as int] }
    #[verifier::external_body]
    fn trace(&self, ctx: &mut Context<'_>) { unimplemented!() }
}

pub open spec fn owned_seq<T: Trace>(s: Seq<T>) -> Seq<int>
    decreases s.len()
{
    if s.len() == 0 { Seq::empty() } else { owned_seq(s.drop_last()) + s.last().owned() }
}

'''

# impl header (exact source text) -> (name, spec fn owned, is_loop)
CONTRACTS = [
    ("unsafe impl<T: Trace> Trace for Option<T>", "Option<T>",
     "open spec fn owned(&self) -> Seq<int> { match self { Some(x) => x.owned(), None => Seq::empty() } }", False),
    ("unsafe impl<R: Trace, E: Trace> Trace for Result<R, E>", "Result<R, E>",
     "open spec fn owned(&self) -> Seq<int> { match self { Ok(x) => x.owned(), Err(e) => e.owned() } }", False),
    ("unsafe impl<T: Trace, const N: usize> Trace for [T; N]", "[T; N]",
     "open spec fn owned(&self) -> Seq<int> { owned_seq(self@) }", True),
    ("unsafe impl<T: Trace> Trace for [T]", "[T]",
     "open spec fn owned(&self) -> Seq<int> { owned_seq(self@) }", True),
    ("unsafe impl<T: Trace> Trace for Vec<T>", "Vec<T>",
     "open spec fn owned(&self) -> Seq<int> { owned_seq(self@) }", True),
]

LOOP_RE = re.compile(r"for elem in self \{(.*?)\n(\s*)\}", re.S)
LOOP_TMPL = '''for elem in it: self
            invariant ctx.visited@ == old(ctx).visited@ + owned_seq(self@.take(it.index@ as int)),
        {
            let ghost i = it.index@ as int;
            proof { assert(self@.take(i+1).drop_last() =~= self@.take(i)); assert(self@.take(i+1).last() == self@[i]); assert(*elem == self@[i]); }%s
            proof { assert(owned_seq(self@.take(i+1)) == owned_seq(self@.take(i)) + self@[i].owned()); assert(ctx.visited@ =~= old(ctx).visited@ + owned_seq(self@.take(i+1))); }
        }
        proof { assert(self@.take(self@.len() as int) =~= self@); }'''
HINT = "        proof { assert(ctx.visited@ =~= old(ctx).visited@ + self.owned()); }\n"


class Lost(Exception):
    pass


def block_after(src, start):
    """text of the brace block that starts at the first '{' at or after `start` (inclusive braces)"""
    i = src.index("{", start)
    depth = 0
    j = i
    while j < len(src):
        if src[j] == "{":
            depth += 1
        elif src[j] == "}":
            depth -= 1
            if depth == 0:
                return src[i:j + 1], j + 1
        j += 1
    raise Lost("unbalanced braces")


def add_hint(body):
    """append the extensionality hint at the end of the (single) fn trace body of an impl block"""
    m = re.search(r"fn trace\(&self, ctx: &mut [^)]*\) \{", body)
    if not m:
        raise Lost("fn trace header not found")
    blk, end = block_after(body, m.start())
    new_blk = blk[:-1].rstrip() + "\n" + HINT + "    }"
    return body[:end - len(blk)] + new_blk + body[end:]


def expand_reps(text, args):
    """expand `$( ... )sep*` repetitions over the single metavariable $args"""
    out = ""
    i = 0
    while True:
        k = text.find("$(", i)
        if k < 0:
            out += text[i:]
            break
        out += text[i:k]
        depth = 0
        j = k + 1
        while True:
            if text[j] == "(":
                depth += 1
            elif text[j] == ")":
                depth -= 1
                if depth == 0:
                    break
            j += 1
        inner = text[k + 2:j]
        rest = text[j + 1:]
        m = re.match(r"([,;]?)([*+])", rest)
        if not m:
            raise Lost("unsupported macro repetition")
        sep = m.group(1)
        pieces = [inner.replace("$args", a) for a in args]
        out += (sep + " ").join(p.strip() if "\n" not in p else p for p in pieces) if sep else "".join(pieces)
        i = j + 1 + m.end()
    return out


def extract(src):
    items = []   # (name, original_text, verus_text)
    for header, name, spec, is_loop in CONTRACTS:
        k = src.find(header)
        if k < 0:
            raise Lost("impl header not found: %s" % header)
        blk, _ = block_after(src, k)
        orig = header + " " + blk
        body = blk
        if is_loop:
            m = LOOP_RE.search(body)
            if not m:
                raise Lost("loop `for elem in self {..}` not found in impl for %s" % name)
            body = body[:m.start()] + (LOOP_TMPL % m.group(1)) + body[m.end():]
        body = add_hint(body)
        body = "{\n    " + spec + body[1:]
        items.append((name, orig, header.replace("unsafe impl", "impl") + " " + body))
    # tuples
    km = src.find("macro_rules! tuple_finalize_trace {")
    if km < 0:
        raise Lost("macro tuple_finalize_trace not found")
    mac, _ = block_after(src, km)
    ki = mac.find("unsafe impl<$($args),*> $crate::trace::Trace for ($($args,)*)")
    if ki < 0:
        raise Lost("Trace impl not found in macro tuple_finalize_trace")
    ib, iend = block_after(mac, ki)
    # header part = from ki to the block start (includes the where clause)
    hdr = mac[ki:mac.index(ib, ki)]
    tmpl = hdr + ib
    inv = src.find("tuple_finalize_traces! {")
    if inv < 0:
        raise Lost("tuple_finalize_traces! invocation not found")
    invb, _ = block_after(src, inv)
    arities = [[a.strip() for a in grp.split(",") if a.strip()] for grp in re.findall(r"\(([^)]*)\);", invb)]
    if not arities:
        raise Lost("no tuple arities found")
    for args in arities:
        t = expand_reps(tmpl, args)
        t = t.replace("$crate::trace::", "")
        orig = t
        t = t.replace("unsafe impl", "impl")
        spec = "open spec fn owned(&self) -> Seq<int> { " + " + ".join("self.%d.owned()" % i for i in range(len(args))) + " }"
        # insert spec fn after the impl's opening brace (the one that follows the where clause)
        b, _ = block_after(t, 0)
        head = t[:t.index(b)]
        b2 = add_hint(b)
        b2 = "{\n    " + spec + b2[1:]
        items.append(("(%s,)" % ", ".join(args), orig, "#[allow(non_snake_case)]\n" + head + b2))
    return items


def run(pid, scratch, tier):
    t0 = time.time()
    lines = []
    src_path = os.path.join(kanirun.REPO, "src", "trace.rs")
    src = open(src_path).read()
    try:
        items = extract(src)
    except Lost as e:
        lines.append("UNDECIDED property=%s verus extraction: %s" % (pid, e))
        return 2, {"verus_status": "extraction failed: %s" % e, "obligations": 0, "discharged": 0}, lines
    text = PRELUDE
    ranges = []
    for name, orig, vt in items:
        start = text.count("\n") + 1
        text += vt + "\n\n"
        ranges.append((start, text.count("\n"), name))
    text += "} // verus!\nfn main() {}\n"
    vf = os.path.join(scratch, "trace_verus.rs")
    open(vf, "w").write(text)
    try:
        p = subprocess.run(["verus", vf, "--time"], cwd=scratch, stdout=subprocess.PIPE, stderr=subprocess.STDOUT, text=True, timeout=600)
        out = p.stdout
    except subprocess.TimeoutExpired:
        lines.append("UNDECIDED property=%s verus timed out" % pid)
        return 2, {"verus_status": "timeout", "obligations": 0, "discharged": 0}, lines
    m = re.search(r"verification results:: (\d+) verified, (\d+) errors", out)
    ev = {
        "verus_file_sha256": hashlib.sha256(text.encode()).hexdigest()[:16],
        "impls": [{"impl": name, "source_sha256": hashlib.sha256(orig.encode()).hexdigest()[:16]} for name, orig, _ in items],
        "functions": ["Trace::trace for " + name for name, _, _ in items],
        "back_end": "Verus 0.2026.09.13 / Z3",
        "checker_cmd_verus": "verus trace_verus.rs --time (file generated from /repo/src/trace.rs on this run)",
        "trusted": ["Cc<T>::trace leaf contract (external_body): CcBox::trace is under Kani contracts", "Verus/vstd models of Vec, slices, arrays and their iterators"],
        "dropped_by_extraction": ["`unsafe` of `unsafe impl`", "`$crate::trace::` prefixes in the tuple macro", "Finalize impls, RefCell, Box/ManuallyDrop/AssertUnwindSafe (Kani probes)"],
        "inserted_by_extraction": ["spec fn owned() per impl", "loop invariant + ghost prelude/postlude around the verbatim loop body", "one extensionality hint at the end of each trace body"],
    }
    tm = re.search(r"total-time:\s+(\d+) ms", out) or re.search(r"verus-time:\s*([0-9.]+)", out)
    ev["verus_wall_s"] = round(time.time() - t0, 2)
    sm = re.search(r"smt-time:\s+(\d+) ms|total smt time.*?(\d+) ms", out, re.I)
    if sm:
        ev["verus_smt_ms"] = int(sm.group(1) or sm.group(2))
    if not m:
        # not a verification verdict: the dialect rejected the extracted text (changed construct) -> undecided
        errs = [l for l in out.splitlines() if l.startswith("error")][:4]
        lines.append("UNDECIDED property=%s verus could not process the extracted impls: %s" % (pid, "; ".join(errs) or out[-300:]))
        ev.update({"verus_status": "rejected", "obligations": 0, "discharged": 0})
        return 2, ev, lines
    verified, errors = int(m.group(1)), int(m.group(2))
    ev.update({"obligations": verified + errors, "discharged": verified, "verus_status": "%d verified, %d errors" % (verified, errors)})
    if errors == 0:
        return 0, ev, lines
    # map error locations to impls
    failed = set()
    for lm in re.finditer(r"-->\s*\S*trace_verus\.rs:(\d+):", out):
        ln = int(lm.group(1))
        for (a, b, name) in ranges:
            if a <= ln <= b:
                failed.add(name)
    kinds = "; ".join(sorted(set(re.findall(r"^error: (.*)$", out, re.M)))[:4])
    if re.search(r"^error\[E\d+\]|^error: (?!postcondition|invariant|assertion|precondition|loop invariant)", out, re.M) and "postcondition not satisfied" not in out and "invariant not satisfied" not in out:
        lines.append("UNDECIDED property=%s verus rejected the extracted impls: %s" % (pid, kinds))
        return 2, ev, lines
    os.makedirs(os.path.join(OUT, "replays"), exist_ok=True)
    for name in sorted(failed) or ["(unlocated)"]:
        ob = "Trace::trace for %s::post::visited_equals_old_plus_owned (each owned Cc exactly once, in order, nothing else)" % name
        path = os.path.join(OUT, "replays", "%s-verus-%s.json" % (pid, re.sub(r"[^A-Za-z0-9]+", "_", name)))
        json.dump({"property": pid, "engine": "verus", "failed_obligations": [{"obligation": ob}], "verifier_output_tail": out[-6000:],
                   "counterexample": None, "note": "Verus gives no counterexample; the Kani probes of the same check report concrete positions when they fail",
                   "verus_file": text}, open(path, "w"), indent=1)
        lines.append("FAILED-OBLIGATION property=%s engine=verus obligation=%s" % (pid, ob))
        lines.append("VIOLATION property=%s replay=%s no-failing-input-found" % (pid, path))
    return 1, ev, lines


if __name__ == "__main__":
    import sys
    import tempfile
    d = tempfile.mkdtemp()
    kanirun.REPO = sys.argv[1] if len(sys.argv) > 1 else "/repo"
    rc, ev, lines = run("C17", d, "quick")
    print(rc)
    print("\n".join(lines))
    print(json.dumps(ev, indent=1)[:1500])
    if "--show" in sys.argv:
        print(open(os.path.join(d, "trace_verus.rs")).read())
