#!/bin/sh
# behaviour-preserving edits must stay silent: every line must report violations=0 and no UNDECIDED
cd "$(dirname "$0")/.."
T=${1:-quick}
run() { d=/var/tmp/benign_$1; rm -rf $d; mkdir -p $d; cp benign/$1.diff $d/patch.diff; p=$1; shift; lib/muttest.sh $d $T "$@" 2>&1 | grep "^== \|PATCH DOES"; rm -rf $d; }
run B1-collect-swap-independent-statements C11 C12
run B2-add_to_list-reorder C11 C01
run B3-drop-rename-and-reorder C03 C04
run B4-strong_count-via-local C08
run B5-should_collect-restructure C15
