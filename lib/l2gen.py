"""L2 instance generator: real-collector composition checks over small heaps (DESIGN 2.1 L2).

Every CONTROL choice is enumerated here and rendered as literals into <scratch>/gen.rs; the harness
bodies only call the building blocks / oracles of kani/l2.rs, which drive the crate's real functions.
"""
import hashlib
import itertools
import json
import random

S = {"s0": "S0", "s1": "S1", "hid": "HID"}


class Inst:
    def __init__(self, n, edges, held, order, **kw):
        self.n = n
        self.edges = edges            # list of (from, slot, to)
        self.held = sorted(held)      # nodes whose creation handle the program keeps in phase 1
        self.order = order            # list of ("touch"|"release", i): buffering / releasing order before phase 1
        self.fin = kw.get("fin", [])              # pre-finalized nodes
        self.stale = kw.get("stale", {})          # node -> class
        self.fin_act = kw.get("fin_act", {})      # node -> (Act, target)
        self.drop_act = kw.get("drop_act", {})    # node -> (Act, target)
        self.weak = kw.get("weak", [])            # nodes with a Weak in WEAKS[i]
        self.fault = kw.get("fault")              # (kind, k)
        self.script = kw.get("script", "collect")  # phase-1 operation
        self.family = kw.get("family", "base")
        self.props = kw.get("props", ["C01", "C02", "C03", "C04", "C05", "C11", "C12"])
        self.feats = kw.get("feats", ["full", "std"])
        self.tier = kw.get("tier", "quick")
        self.mutating = bool(self.fin_act or self.drop_act)
        self.phase2 = kw.get("phase2", True)
        self.note = kw.get("note", "")
        self.cont = kw.get("cont")                # fault instances: handles released in the continuation (None = all)

    # ---- static graph facts
    def succ(self, i, kinds=("s0", "s1", "hid")):
        return [t for (f, s, t) in self.edges if f == i and s in kinds]

    def reach(self, roots, kinds=("s0", "s1", "hid")):
        seen = set(roots)
        todo = list(roots)
        while todo:
            x = todo.pop()
            for y in self.succ(x, kinds):
                if y not in seen:
                    seen.add(y)
                    todo.append(y)
        return seen

    def kept_forever(self):
        """objects that can never be reclaimed once unreachable: supported through an untraced edge (see DESIGN C02)"""
        K = set(range(self.n))
        while True:
            anchors = {t for (f, s, t) in self.edges if s == "hid" and f in K}
            K2 = self.reach(anchors) & K if anchors else set()
            if K2 == K:
                return K
            K = K2

    def key(self):
        d = dict(n=self.n, e=sorted(self.edges), h=self.held, o=self.order, f=sorted(self.fin), s=sorted(self.stale.items()),
                 fa=sorted((k, v[0], v[1]) for k, v in self.fin_act.items()), da=sorted((k, v[0], v[1]) for k, v in self.drop_act.items()),
                 w=sorted(self.weak), ft=self.fault, sc=self.script, p2=self.phase2, ct=self.cont)
        return json.dumps(d, sort_keys=True)

    def name(self):
        return "l2_%s_%s" % (self.family, hashlib.sha1(self.key().encode()).hexdigest()[:10])

    def describe(self):
        e = ",".join("%d.%s>%d" % (f, s, t) for (f, s, t) in sorted(self.edges))
        o = ",".join("%s%d" % (k[0], i) for (k, i) in self.order)
        x = []
        if self.fin:
            x.append("fin=%s" % self.fin)
        if self.stale:
            x.append("stale=%s" % self.stale)
        if self.fin_act:
            x.append("fin_act=%s" % self.fin_act)
        if self.drop_act:
            x.append("drop_act=%s" % self.drop_act)
        if self.weak:
            x.append("weak=%s" % self.weak)
        if self.fault:
            x.append("fault=%s" % (self.fault,))
        if self.cont is not None:
            x.append("then_release=%s" % (self.cont,))
        return "n=%d edges[%s] held%s order[%s] script=%s %s" % (self.n, e, self.held, o, self.script, " ".join(x))


def arr(n_true, n=4):
    return "[" + ", ".join("true" if i in n_true else "false" for i in range(n)) + "]"


def resurrecting(inst):
    return any(v[0].startswith(("Resurrect", "UpgradeStore")) for v in list(inst.fin_act.values()) + list(inst.drop_act.values()))


def alias_of(inst):
    """obligations of other properties that ARE the statement of this instance's property in its context"""
    a = ""
    if inst.fault:
        # C07: "every safety guarantee (C01, C03, C05, C08) keeps holding for all subsequent operations"
        a += " | alias=C07:C01+C03+C04+C05+C08+C11"
    if resurrecting(inst) and "C06" in inst.props:
        # C06: "every object reachable when the collection ends has survived intact ... the rest is still reclaimed
        # ... without a second finalization"
        a += " | alias=C06:C01+C02+C03+C05"
    return a


def render(inst):
    L = []
    a = L.append
    weak = bool(inst.weak) or any(v[0].startswith("Upgrade") for v in list(inst.fin_act.values()) + list(inst.drop_act.values()))
    feats = [f for f in inst.feats if not weak or f in ("full", "finweak")]
    uses_fin = bool(inst.fin or inst.fin_act) or (inst.fault is not None and inst.fault[0] == 2)
    if uses_fin:
        feats = [f for f in feats if f != "std"]
    if not feats:
        feats = ["full"]
    bound = "heap of %d objects, 2 traced + 1 untraced slot each, every control choice fixed: %s" % (inst.n, inst.describe())
    a("//@ %s | bounded: %s | deciding | %s | feat=%s | fn=collect_cycles,collect,__collect,trace_counting,trace_roots,deallocate_list,Cc::drop,Cc::clone | timeout=300 | safety=%s%s | l2" % (
        " ".join(inst.props), bound.replace("|", "/"), inst.tier, ",".join(feats),
        ("C01,C03,C04,C07,C08" if weak else "C01,C03,C04,C07") + (",C06" if resurrecting(inst) else ""), alias_of(inst)))
    if weak:
        a('#[cfg(feature = "weak-ptrs")]')
    if uses_fin:
        a('#[cfg(feature = "finalization")]')
    a("#[kani::proof]")
    a("#[kani::unwind(12)]")
    a("pub(crate) fn %s() {" % inst.name())
    a("    use crate::verif::ghost::Act;")
    a("    use crate::verif::l2::*;")
    a("    mk(%d);" % inst.n)
    for (f, s, t) in inst.edges:
        a("    link(%d, %s, %d);" % (f, S[s], t))
    for i in inst.weak:
        a("    weak(%d);" % i)
    for i in inst.fin:
        a("    set_fin(%d);" % i)
    for i, (act, tg) in sorted(inst.fin_act.items()):
        a("    act_fin(%d, Act::%s, %d);" % (i, act, tg))
    for i, (act, tg) in sorted(inst.drop_act.items()):
        a("    act_drop(%d, Act::%s, %d);" % (i, act, tg))
    for (k, i) in inst.order:
        a("    %s(%d);" % (k, i))
    for i, cls in sorted(inst.stale.items()):
        a("    stale(%d, %d);" % (i, cls))
    if inst.fault:
        a("    fault(%d, %d);" % inst.fault)
        return render_fault(inst, L)
    held = set(inst.held)
    # handles that a callback releases are not "held by the program for the whole scenario"
    released_by_cb = {t for (act, t) in list(inst.fin_act.values()) + list(inst.drop_act.values()) if act == "ReleaseHeld"}
    live0 = inst.reach(held - released_by_cb)
    a("    let e0 = execs();")
    # phase 1
    if inst.script == "collect":
        a("    collect();")
        a("    check_execs(e0 + 1);")
    elif inst.script.startswith("release"):
        i = int(inst.script[7:])
        a("    release(%d);" % i)
        held = held - {i}
        live0 = inst.reach(held - released_by_cb)
    elif inst.script == "none":
        pass
    a("    check_safety(%d, %s, true);" % (inst.n, arr(live0)))
    if not inst.mutating and inst.script == "collect":
        # C02 after one collection: everything unreachable, not kept through an untraced edge
        garbage = set(range(inst.n)) - live0
        # only what is not supported (any edge) by a live object or by the untraced-kept set
        kept = inst.kept_forever()
        sure = garbage - inst.reach(kept)
        # a finalization pass needs a second call; acyclic leftovers released by destructors need more
        a("    collect();")
        a("    collect();")
        a("    collect();")
        a("    check_safety(%d, %s, true);" % (inst.n, arr(live0)))
        a("    check_reclaimed(%d, %s, %s);" % (inst.n, arr(sure), arr(sure - set(inst.fin))))
    if inst.phase2:
        # phase 2: the program lets go of everything; repeated collections reclaim all that is not kept forever
        for i in sorted(held):
            a("    release(%d);" % i)
        for i in range(inst.n):
            a("    release_stash(%d);" % i)
        for _ in range(inst.n + 2):
            a("    collect();")
        a("    check_safety(%d, %s, true);" % (inst.n, arr(set())))
        if not inst.mutating:
            kept = inst.kept_forever()
            rec = set(range(inst.n)) - inst.reach(kept)
            a("    check_reclaimed(%d, %s, %s);" % (inst.n, arr(rec), arr(rec - set(inst.fin))))
            a("    check_quiescent();")
        elif not any(s == "hid" for (_, s, _) in inst.edges):
            a("    check_all_dropped(%d);" % inst.n)
    a('    kani::cover!(true, "l2::end_of_scenario_reached");')
    a("    finish();")
    a("}")
    return "\n".join(L) + "\n"


def render_fault(inst, L):
    """C07: one emulated panic at the k-th callback of the chosen kind during the scripted operation,
    caught at the API boundary; then the program goes on: the safety oracles must keep holding."""
    a = L.append
    held = set(inst.held)
    live0 = inst.reach(held)
    a("    let e0 = execs();")
    if inst.script == "collect":
        a("    collect();")
    elif inst.script.startswith("release"):
        i = int(inst.script[7:])
        a("    release(%d);" % i)
        held = held - {i}
        live0 = inst.reach(held)
    a("    let c = caught();")
    a("    disarm();")
    a("    check_safety(%d, %s, !c);" % (inst.n, arr(live0)))
    a("    check_usable();")
    # continuation: let go of some / all handles, collect repeatedly
    rel = sorted(held) if inst.cont is None else [i for i in inst.cont if i in held]
    for i in rel:
        a("    release(%d);" % i)
    held = held - set(rel)
    for i in range(inst.n):
        a("    release_stash(%d);" % i)
    # ... and a later collection can start (the continuation goes straight on: hidden state left by the
    # unwound operation must be interpreted safely by whatever comes next)
    a("    let e1 = execs();")
    a("    collect();")
    a("    check_later_collection(e1 + 1);")
    a("    check_safety(%d, %s, !c);" % (inst.n, arr(inst.reach(held))))
    for _ in range(inst.n):
        a("    collect();")
    a("    check_safety(%d, %s, !c);" % (inst.n, arr(inst.reach(held))))
    a('    kani::cover!(c, "info::fault_fired_and_was_caught");')
    a('    kani::cover!(true, "l2::end_of_scenario_reached");')
    a("    finish();")
    a("}")
    return "\n".join(L) + "\n"


# ------------------------------------------------------------------------------------------------
# families
# ------------------------------------------------------------------------------------------------
def orders(n, held, max_orders=2, rng=None):
    """buffering orders: every node is either touched (if held) or released (if not held); permutations of the node order"""
    perms = list(itertools.permutations(range(n)))
    if rng:
        rng.shuffle(perms)
    out = []
    for p in perms[:max_orders]:
        out.append([("touch" if i in held else "release", i) for i in p])
    return out


def shapes2():
    """all directed multigraph shapes on 2 nodes (canonical slot use: s1 only if s0 is used)"""
    opts = []
    for s0 in (None, 0, 1):
        for s1 in (None, 0, 1):
            if s0 is None and s1 is not None:
                continue
            for hid in (None, 0, 1):
                opts.append((s0, s1, hid))
    for a in opts:
        for b in opts:
            e = []
            for (i, (s0, s1, hid)) in ((0, a), (1, b)):
                if s0 is not None:
                    e.append((i, "s0", s0))
                if s1 is not None:
                    e.append((i, "s1", s1))
                if hid is not None:
                    e.append((i, "hid", hid))
            yield e


NAMED3 = {
    "ring": [(0, "s0", 1), (1, "s0", 2), (2, "s0", 0)],
    "lasso": [(0, "s0", 1), (1, "s0", 0), (2, "s0", 0)],
    "shared_tail": [(0, "s0", 1), (1, "s0", 0), (0, "s1", 2), (1, "s1", 2)],
    "two_cycles_share_node": [(0, "s0", 1), (1, "s0", 0), (0, "s1", 2), (2, "s0", 0)],
    "untraced_pin": [(0, "s0", 1), (1, "s0", 0), (2, "hid", 0)],
    "untraced_inside_cycle": [(0, "s0", 1), (1, "hid", 0), (2, "s0", 0)],
    "self_loops_chain": [(0, "s0", 0), (0, "s1", 1), (1, "s0", 1), (1, "s1", 2)],
    "double_edge": [(0, "s0", 1), (0, "s1", 1), (1, "s0", 0), (2, "s0", 1)],
}

NAMED2 = {
    "two_cycle": [(0, "s0", 1), (1, "s0", 0)],
    "self_loop": [(0, "s0", 0)],
    "self_loop_tail": [(0, "s0", 0), (0, "s1", 1)],
    "double_edge_cycle": [(0, "s0", 1), (0, "s1", 1), (1, "s0", 0)],
    "untraced_cycle": [(0, "s0", 1), (1, "hid", 0)],
    "untraced_self": [(0, "hid", 0), (0, "s0", 1)],
    "chain": [(0, "s0", 1)],
    "cycle_plus_untraced_back": [(0, "s0", 1), (1, "s0", 0), (1, "hid", 0)],
}


def subsets(n):
    for k in range(n + 1):
        for c in itertools.combinations(range(n), k):
            yield set(c)


def base_family(tier, rng):
    out = []
    # N = 2 named shapes: all held subsets x 2 orders x stale classes on one unbuffered node
    for nm, e in NAMED2.items():
        for held in subsets(2):
            for o in orders(2, held, 2):
                out.append(Inst(2, e, held, o, family="n2_" + nm))
    for nm, e in NAMED3.items():
        for held in ([], [0], [2], [1, 2]):
            o = orders(3, set(held), 1)[0]
            out.append(Inst(3, e, set(held), o, family="n3_" + nm))
            o2 = list(reversed(o))
            out.append(Inst(3, e, set(held), o2, family="n3_" + nm, tier="thorough"))
    if tier == "thorough":
        for e in shapes2():
            for held in subsets(2):
                for o in orders(2, held, 2):
                    out.append(Inst(2, e, held, o, family="n2_all", tier="thorough"))
    return out


def history_family(tier, rng):
    """hidden per-object state left by earlier history: stale tracing counters on unbuffered objects,
    finalized bits, objects buffered then un-buffered (mark_alive)"""
    out = []
    for nm, e in list(NAMED2.items()) + [("n3_" + k, v) for k, v in NAMED3.items() if k in ("lasso", "shared_tail", "untraced_pin")]:
        n = 3 if nm.startswith("n3_") else 2
        for held in ([0], [n - 1]):
            hs = set(held)
            # buffer only ONE node; the others stay unbuffered and carry a stale counter
            for b in range(n):
                order = [("touch" if b in hs else "release", b)] + [("release", i) for i in range(n) if i != b and i not in hs]
                for cls in (1, 3, 4):
                    st = {i: cls for i in range(n) if i != b}
                    out.append(Inst(n, e, hs, order, stale=st, family="hist_" + nm, props=["C01", "C02", "C03", "C04", "C05", "C11"],
                                    tier="quick" if cls == 3 else "thorough"))
                for fin in ([0], [n - 1], list(range(n))):
                    out.append(Inst(n, e, hs, order, fin=fin, family="histfin_" + nm, props=["C01", "C02", "C03", "C05", "C06"],
                                    tier="quick" if (b == 0 and len(fin) == 1) else "thorough"))
    return out


def finalizer_family(tier, rng):
    """finalizers that mutate the graph / resurrect (C05, C06, C01)"""
    out = []
    acts = ["ResurrectSelf", "ResurrectNeighbour", "ResurrectIntoSelf", "ClearSlot0", "Alloc", "Collect"]
    for nm, e, n in [("two_cycle", NAMED2["two_cycle"], 2), ("self_loop_tail", NAMED2["self_loop_tail"], 2), ("self_loop", NAMED2["self_loop"], 1),
                     ("ring", NAMED3["ring"], 3), ("lasso", NAMED3["lasso"], 3), ("shared_tail", NAMED3["shared_tail"], 3)]:
        for act in acts:
            for who in range(n):
                order = [("release", i) for i in range(n)]
                t = "quick" if (who == 0 or n < 3) else "thorough"
                out.append(Inst(n, e, set(), order, fin_act={who: (act, 0)}, family="fin_%s_%s" % (act.lower(), nm),
                                props=["C01", "C02", "C03", "C04", "C05", "C06", "C11", "C12"], tier=t))
                if n >= 2:
                    o2 = list(reversed(order))
                    out.append(Inst(n, e, set(), o2, fin_act={who: (act, 0)}, family="fin_%s_%s" % (act.lower(), nm),
                                    props=["C01", "C03", "C04", "C05", "C06", "C11", "C12"], tier="thorough"))
    # an allocation inside a finalizer / destructor run by a plain Cc::drop starts an AUTOMATIC collection
    # (Cc::new -> trigger_collection) while another garbage object is buffered: that collection's trace calls must
    # see is_tracing(), it must reclaim the garbage, and nothing may nest
    for kind in ("fin", "drop"):
        kw = {("fin_act" if kind == "fin" else "drop_act"): {0: ("AllocAuto", 0)}}
        out.append(Inst(2, [(1, "s0", 1)], {0}, [("release", 1)], script="release0", family="rc%s_allocauto_selfloop" % kind,
                        props=["C01", "C03", "C05", "C12", "C15"], feats=["full"], **kw))
        out.append(Inst(3, [(1, "s0", 2), (2, "s0", 1)], {0}, [("release", 1), ("release", 2)], script="release0", family="rc%s_allocauto_cycle" % kind,
                        props=["C01", "C03", "C05", "C12", "C15"], feats=["full"], **kw))
        # ... and from a callback of a running collection it must NOT start one
        out.append(Inst(2, NAMED2["two_cycle"], set(), [("release", 0), ("release", 1)], family="%s_allocauto_two_cycle" % kind,
                        props=["C01", "C03", "C05", "C12", "C15"], feats=["full"], **kw))
    # a finalizer (or destructor) releases the last outside pointer to ANOTHER garbage structure: that structure is
    # buffered during the pass and must survive the re-buffering of the finalized set to be reclaimed later
    for kind in ("fin", "drop"):
        for tail, e in (("cycle", [(0, "s0", 0), (1, "s0", 2), (2, "s0", 1)]), ("self", [(0, "s0", 0), (1, "s0", 1)]), ("pair", [(0, "s0", 0), (0, "s1", 0), (1, "s0", 2), (2, "s0", 1)])):
            n = 3 if tail != "self" else 2
            order = [("release", 0)] + [("release", i) for i in range(2, n)]
            kw = {("fin_act" if kind == "fin" else "drop_act"): {0: ("ReleaseHeld", 1)}}
            out.append(Inst(n, e, {1}, order, family="%s_releaseheld_%s" % (kind, tail), props=["C01", "C02", "C03", "C05", "C06", "C11"], **kw))
    # mixed sets: some members already finalized (history), another member's finalizer resurrects — the
    # finalize-or-deallocate decision must consider EVERY member of the set, in whatever order it is visited
    for nm, e, n in [("two_cycle", NAMED2["two_cycle"], 2), ("lasso", NAMED3["lasso"], 3), ("ring", NAMED3["ring"], 3), ("shared_tail", NAMED3["shared_tail"], 3)]:
        for act in ["ResurrectSelf", "ResurrectNeighbour", "ResurrectIntoSelf"]:
            for who in range(n):
                others = [i for i in range(n) if i != who]
                fins = [[o] for o in others] + ([others] if len(others) > 1 else [])
                for fin in fins:
                    for rev in (False, True):
                        order = [("release", i) for i in range(n)]
                        if rev:
                            order = list(reversed(order))
                        t = "quick" if (n == 2 or (nm == "lasso" and act == "ResurrectSelf" and len(fin) == 1)) else "thorough"
                        out.append(Inst(n, e, set(), order, fin=fin, fin_act={who: (act, 0)}, family="finmix_%s_%s" % (act.lower(), nm),
                                        props=["C01", "C03", "C05", "C06"], tier=t))
    # a finalizer (run by a plain Cc::drop, or by the collector) releases the last Cc of a not-yet-finalized child:
    # the child must be finalized (it is due), dropped and freed there and then
    out.append(Inst(2, [(0, "s0", 1)], {0}, [("release", 1)], fin_act={0: ("ClearSlot0", 0)}, script="release0", family="rcfin_parent_clearslot0",
                    props=["C01", "C02", "C03", "C04", "C05", "C12"]))
    out.append(Inst(3, [(0, "s0", 1), (1, "hid", 2)], {0}, [("release", 1), ("release", 2)], fin_act={0: ("ClearSlot0", 0)}, script="release0", family="rcfin_parent_clearslot0_chain",
                    props=["C01", "C02", "C03", "C04", "C05", "C12"]))
    # the reference-count path: last handle dropped, finalizer acts (script = release)
    for act in acts:
        out.append(Inst(1, [], {0}, [], fin_act={0: (act, 0)}, script="release0", family="rcfin_%s" % act.lower(),
                        props=["C01", "C02", "C03", "C04", "C05", "C06", "C12"]))
        out.append(Inst(1, [], {0}, [("touch", 0)], fin_act={0: (act, 0)}, script="release0", family="rcfin_buffered_%s" % act.lower(),
                        props=["C01", "C02", "C03", "C04", "C05", "C06", "C12"]))
        out.append(Inst(2, [(0, "s0", 1)], {0}, [("release", 1)], fin_act={1: (act, 0)}, script="release0", family="rcfin_child_%s" % act.lower(),
                        props=["C01", "C02", "C03", "C04", "C05", "C06", "C12"]))
    return out


def destructor_family(tier, rng):
    """destructors that use the API (allocate, collect, upgrade) — the documented-legal actions"""
    out = []
    for act in ["Alloc", "Collect"]:
        for nm, e, n in [("two_cycle", NAMED2["two_cycle"], 2), ("lasso", NAMED3["lasso"], 3)]:
            for who in range(n):
                out.append(Inst(n, e, set(), [("release", i) for i in range(n)], drop_act={who: (act, 0)}, family="drop_%s_%s" % (act.lower(), nm),
                                props=["C01", "C03", "C04", "C11", "C12"], tier="quick" if who == 0 else "thorough"))
        # reference-count path, object buffered or not when its last handle goes
        out.append(Inst(1, [], {0}, [], drop_act={0: (act, 0)}, script="release0", family="rcdrop_%s" % act.lower(), props=["C01", "C03", "C04", "C11", "C12"]))
        out.append(Inst(1, [], {0}, [("touch", 0)], drop_act={0: (act, 0)}, script="release0", family="rcdrop_buffered_%s" % act.lower(), props=["C01", "C03", "C04", "C11", "C12"]))
        out.append(Inst(2, [(0, "s0", 1)], {0}, [("release", 1)], drop_act={0: (act, 0)}, script="release0", family="rcdrop_parent_%s" % act.lower(), props=["C01", "C03", "C04", "C11", "C12"]))
        out.append(Inst(2, [(0, "hid", 1)], {0}, [("release", 1)], drop_act={1: (act, 0)}, script="release0", family="rcdrop_untraced_child_%s" % act.lower(), props=["C01", "C03", "C04", "C11", "C12"]))
    return out


def weak_family(tier, rng):
    out = []
    for nm, e, n in [("two_cycle", NAMED2["two_cycle"], 2), ("lasso", NAMED3["lasso"], 3), ("self_loop_tail", NAMED2["self_loop_tail"], 2)]:
        for who in range(n):
            for tg in range(n):
                for kind in ("fin", "drop"):
                    kw = {("fin_act" if kind == "fin" else "drop_act"): {who: ("UpgradeProbe", tg)}}
                    out.append(Inst(n, e, set(range(n)), [], weak=list(range(n)), phase2=True, script="none", family="weak_%s_%s" % (kind, nm),
                                    props=["C08", "C01", "C03", "C09"], feats=["full", "finweak"], tier="quick" if n == 2 else "thorough", **kw))
        # weak pointers never change what is reclaimed: same instance with weaks, no action
        out.append(Inst(n, e, set(), [("release", i) for i in range(n)], weak=list(range(n)), family="weak_inert_%s" % nm,
                        props=["C08", "C02", "C09"], feats=["full", "finweak"]))
    for kind in ("fin", "drop"):
        kw = {("fin_act" if kind == "fin" else "drop_act"): {0: ("UpgradeStore", 0)}}
        out.append(Inst(1, [], {0}, [], weak=[0], script="release0", family="weak_rc_self_%s" % kind, props=["C08", "C01", "C06"], feats=["full", "finweak"], **kw))
        out.append(Inst(2, NAMED2["two_cycle"], set(), [("release", 0), ("release", 1)], weak=[0, 1], family="weak_store_%s" % kind,
                        props=["C08", "C01", "C06"], feats=["full", "finweak"], **{("fin_act" if kind == "fin" else "drop_act"): {0: ("UpgradeStore", 1)}}))
    return out


def fault_family(tier, rng):
    """C07: fault kind (1 trace at entry, 4 trace at exit, 2 finalize, 3 drop) x invocation index k"""
    out = []
    P7 = ["C07"]
    scen = [
        ("two_cycle", 2, NAMED2["two_cycle"], set(), [("release", 0), ("release", 1)], "collect"),
        ("two_cycle_held", 2, NAMED2["two_cycle"], {0}, [("release", 1), ("touch", 0)], "collect"),
        ("self_loop_tail", 2, NAMED2["self_loop_tail"], set(), [("release", 0), ("release", 1)], "collect"),
        ("lasso", 3, NAMED3["lasso"], set(), [("release", 0), ("release", 1), ("release", 2)], "collect"),
        ("lasso_held", 3, NAMED3["lasso"], {2}, [("release", 0), ("release", 1), ("touch", 2)], "collect"),
        # the D1 shape: buffer order [B, C, A]: B self-loop and B -> A (live), C unrelated
        ("bca", 3, [(1, "s0", 1), (1, "s1", 0)], {0, 1, 2}, [("touch", 0), ("touch", 2), ("touch", 1)], "collect"),
        ("shared_tail", 3, NAMED3["shared_tail"], set(), [("release", 0), ("release", 1), ("release", 2)], "collect"),
        ("untraced_pin", 3, NAMED3["untraced_pin"], {2}, [("release", 0), ("release", 1), ("touch", 2)], "collect"),
        # two roots, the first one points to the second: a fault in the ROOT-tracing phase must leave the second usable
        ("qr", 2, [(0, "s0", 0), (0, "s1", 1)], {0, 1}, [("touch", 1), ("touch", 0)], "collect"),
        ("qr_rev", 2, [(0, "s0", 0), (0, "s1", 1)], {0, 1}, [("touch", 0), ("touch", 1)], "collect"),
        ("rc_chain", 2, [(0, "s0", 1)], {0}, [("release", 1)], "release0"),
        ("rc_single_buffered", 1, [], {0}, [("touch", 0)], "release0"),
    ]
    for nm, n, e, held, order, script in scen:
        kmax = {1: 2 * n + 2, 4: 2 * n + 2, 2: n, 3: n}
        for kind in (1, 4, 2, 3):
            if kind in (1, 4) and script != "collect":
                continue
            for k in range(1, kmax[kind] + 1):
                quick = (k <= 2 and nm in ("two_cycle", "bca", "lasso", "rc_chain", "two_cycle_held")) or (k <= 5 and nm == "bca" and kind == 1) or (nm in ("qr", "qr_rev") and kind in (1, 4) and k <= 4)
                feats = ["full", "fin"] if kind == 2 else ["full", "std"]
                out.append(Inst(n, e, held, order, fault=(kind, k), script=script, family="fault%d_%s" % (kind, nm), props=P7,
                                feats=feats, tier="quick" if quick else "thorough"))
                if len(held) >= 2:
                    for h in sorted(held):
                        out.append(Inst(n, e, held, order, fault=(kind, k), script=script, cont=[h], family="fault%d_%s" % (kind, nm), props=P7,
                                        feats=feats, tier="quick" if (quick and kind == 1) else "thorough"))
    return out


FAMILIES = [base_family, history_family, finalizer_family, destructor_family, weak_family, fault_family]


def generate(pid, tier, seed):
    rng = random.Random(seed)
    insts = []
    seen = set()
    for fam in FAMILIES:
        for i in fam(tier, rng):
            if pid != "ALL" and pid not in i.props:
                continue
            if tier == "quick" and i.tier != "quick":
                continue
            k = i.key()
            if k in seen:
                continue
            seen.add(k)
            insts.append(i)
    return insts


def select(insts, cap, seed):
    """at most `cap` instances, round-robin over families so that every family is represented;
    within a family the order is shuffled by `seed`"""
    if len(insts) <= cap:
        return insts
    # the reference-count-path scenarios (1-2 objects, a few seconds each) are always kept: they are
    # the only ones that exercise callbacks re-entering the API from a plain Cc::drop
    must = [i for i in insts if i.family.startswith(("rcfin", "rcdrop", "weak_rc", "finmix_resurrectself_two_cycle", "fin_releaseheld"))]
    insts = [i for i in insts if not i.family.startswith(("rcfin", "rcdrop", "weak_rc", "finmix_resurrectself_two_cycle", "fin_releaseheld"))]
    cap = max(0, cap - len(must))
    rng = random.Random(seed)
    def coarse(f):
        t = f.split("_")
        if t[0] in ("n2", "n3", "hist", "histfin"):
            return t[0]
        if t[0] in ("rcfin", "rcdrop") and len(t) > 2 and t[1] in ("buffered", "child", "parent", "untraced"):
            return "_".join(t[:1] + t[-1:])
        return "_".join(t[:2])
    fam = {}
    for i in insts:
        fam.setdefault(coarse(i.family), []).append(i)
    keys = sorted(fam)
    for k in keys:
        rng.shuffle(fam[k])
    out = []
    while len(out) < cap:
        progressed = False
        for k in keys:
            if fam[k] and len(out) < cap:
                out.append(fam[k].pop())
                progressed = True
        if not progressed:
            break
    return must + out


def write(path, insts):
    with open(path, "w") as f:
        f.write("// generated by lib/l2gen.py: %d instances\n" % len(insts))
        for i in insts:
            f.write(render(i))
            f.write("\n")


if __name__ == "__main__":
    import sys
    pid = sys.argv[1] if len(sys.argv) > 1 else "ALL"
    tier = sys.argv[2] if len(sys.argv) > 2 else "quick"
    ins = generate(pid, tier, 0)
    print(len(ins), "instances")
    from collections import Counter
    print(Counter(i.family.split("_")[0] for i in ins))
    if len(sys.argv) > 3:
        write(sys.argv[3], ins)
