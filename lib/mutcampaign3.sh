#!/bin/sh
cd "$(dirname "$0")/.."
T=${1:-quick}
run() { lib/muttest.sh seeded/$1 $T $2 $3 $4 2>&1 | grep "^== \|PATCH DOES"; }
run C03-d C03
run C04-d C04
run C07-d C07
run C13-d C13
run C15-d C15
run C16-d C16
run C02-c C02
run C05-c C05
run C06-c C06
run C08-c C08
run C09-c C09
run C11-c C11
