#!/bin/sh
cd "$(dirname "$0")/.."
T=${1:-quick}
run() { lib/muttest.sh seeded/$1 $T $2 $3 $4 2>&1 | grep "^== \|PATCH DOES"; }
run C03-d C03
run C04-d C04
run C07-d C07
run C13-d C13
run C15-d C15
run C16-d C16
