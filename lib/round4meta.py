#!/usr/bin/env python3
"""usage: lib/round4meta.py <campaign log>  -- writes seeded/<id>/meta.json for the round-4 seeded changes from the
campaign log lines (`== <id> <prop> violations=N :: ...`), the agent's notes.md and the seedcheck log."""
import json, os, re, sys
V = os.path.dirname(os.path.dirname(os.path.abspath(__file__)))
NEEDS = {
 "C01-e": "a garbage set mixing a fresh object whose finalizer resurrects with an already-finalized object visited AFTER it in non_root_list order (the fold's accumulated 'a finalizer ran' flag is wiped)",
 "C01-f": "weak-ptrs; a cycle reclaimed by a collection; a Drop impl / cleaning action upgrades a Weak to a later, not yet dropped member of the same garbage list and keeps the Cc",
 "C03-e": "a side record whose weak count is back at 0, a unique Cc, try_unwrap outside a collection: layout() read after drop_metadata freed the record",
 "C03-f": "new_cyclic starts an automatic collection and that collection panics: the uninitialised box is owned by a local Cc during the collection and is finalized/dropped by the unwind",
 "C05-e": "a finalizer run by a plain Cc::drop calls collect_cycles() (nested collection) and THEN creates a Cc: the collect() exit guard cleared the outer `finalizing` flag",
 "C05-f": "a finalizer run by the collector panics (caught), the set is re-buffered and collected again: finalized bit set only after the callback",
 "C08-e": "finalizing and dropping both set: a finalizer run by Cc::drop of a unique object inside the collector's destructor phase upgrades a Weak to a not-yet-dropped member of the garbage set",
 "C08-f": "try_unwrap on a unique Cc with outstanding Weaks called from a finalizer/destructor/cleaning action (flags set): returns Err but has already severed the side record",
 "C10-e": "auto-collect fires exactly on a Cleaner's FIRST register, and a finalizer run by that collection registers an action on the same Cleaner (re-entrant register while the map slot is still None)",
 "C10-f": "a collection started from a finalizer run by a plain Cc::drop (finalizing stays true through its drop phase); a cleaning action of a cycle member upgrades a Weak to a sibling about to be dropped",
 "C12-e": "a collection started by collect_cycles() (or allocation) from a destructor / cleaning action run by a plain Cc::drop, with something buffered: the `dropping` mask guard is dropped immediately (`let _ =`)",
 "C12-f": "Cc::new_cyclic (not Cc::new) called from a finalizer/destructor of a running collection while allocated bytes exceed the threshold: nested collection",
 "C14-e": "new_cyclic starts an automatic collection that panics while the closure owns the uninitialised wrapper",
 "C14-f": "new_cyclic is called from a finalizer/destructor of a running collection (collecting set) and its closure panics: the box is never freed and stays in allocated_bytes",
 "C17-e": "a cycle edge held in a Vec<ManuallyDrop<Cc<_>>> (element type without drop glue)",
 "C17-f": "a shared borrow of the RefCell is alive when the cell is finalized (Finalize for RefCell takes try_borrow_mut)",
 "C20-e": "both operands point to the same allocation and T's PartialEq is not reflexive (NaN)",
 "C20-f": "Display through a Cc with a non-default format spec (width, precision, +, #)",
}
rows = {}
for line in open(sys.argv[1], errors="replace"):
    m = re.match(r"== (\S+) (C\d\d) violations=(\d+) :: (.*)$", line.strip())
    if m:
        mut, pid, nv, rest = m.group(1), m.group(2), int(m.group(3)), m.group(4)
        obs = re.findall(r"harness=(\S+) features=\S+ obligation=([^|]*)", rest)
        rows.setdefault(mut, []).append({"check": "./check %s --tier quick" % pid, "violations": nv,
                                         "failing": [{"harness": h, "obligation": o.strip()[:200]} for h, o in obs[:3]]})
for mut, det in sorted(rows.items()):
    d = os.path.join(V, "seeded", mut)
    if not os.path.isdir(d):
        continue
    sc = ""
    try:
        sc = open(os.path.join(d, "seedcheck.log")).read()
    except OSError:
        pass
    ok = ("demo on unchanged" in sc) and re.search(r"demo on unchanged HEAD\ntest result: ok", sc) and re.search(r"demo with patch\n(test result: FAILED|error: test failed)", sc)
    meta = {
        "id": mut, "breaks_property": mut[:3], "needs_to_manifest": NEEDS.get(mut, ""),
        "confirmed_by": "lib/seedimport.sh -> lib/seedcheck.sh seeded/%s (scratch worktree of /repo HEAD: demo passes unchanged; patch applies; demo fails with the patch; baseline suite results as on the unchanged tree; see seedcheck.log)%s" % (mut, "" if ok else " -- INCOMPLETE, see seedcheck.log"),
        "demo_cmd": "cp demo.rs <worktree>/tests/seed_demo.rs && cargo test --offline --features weak-ptrs,cleaners --test seed_demo",
        "origin": "round 4: independent sub-agent given only the property text and its own worktree; patch re-based onto /repo HEAD with git apply --3way",
        "detected_by": det,
        "what_i_ran": "lib/seedimport.sh <agent out dir> %s ; lib/muttest.sh seeded/%s quick <prop> with MUT_ARGS=--only <subset of the quick check> where noted in DESIGN 10.8 (patch applied to a scratch copy of /repo, VERIF_REPO pointed at it)" % (mut, mut),
    }
    json.dump(meta, open(os.path.join(d, "meta.json"), "w"), indent=1)
    print(mut, [(x["check"], x["violations"]) for x in det])
