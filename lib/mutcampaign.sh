#!/bin/sh
# runs every seeded mutation against the quick check of the property it targets
cd "$(dirname "$0")/.."
T=${1:-quick}
run() { lib/muttest.sh seeded/$1 $T $2 $3 $4 2>&1 | grep "^== \|PATCH DOES"; }
run C01-a C01 C03
run C02-a C02
run C03-b C03
run C04-a C04
run C05-a C05
run C06-a C06
run C07-b C07
run C08-a C08
run C09-a C09 C13
run C10-b C10
run C11-b C11
run C12-b C12
run C13-a C13
run C14-b C14
run C15-b C15
run C16-b C16
run C17-b C17
run C20-b C20
run C02-c C02
run C05-c C05
run C06-c C06
run C08-c C08
run C09-c C09
run C11-c C11
