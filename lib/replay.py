"""Replay files: what failed, the verifier's output, the counterexample and its native re-execution."""
import json
import os
import re
import subprocess
import time

import kanirun

VERIF = os.path.dirname(os.path.dirname(os.path.abspath(__file__)))
OUT = os.environ.get("VERIF_OUT", VERIF)


NATIVE_BUDGET = [2]


def extract_playback(out):
    """Return (test_source, values) from `--concrete-playback=print` output, or (None, None)."""
    m = re.search(r"Concrete playback unit test for `[^`]*`:\s*```\s*(.*?)```", out, re.S)
    if not m:
        return None, None
    src = m.group(1)
    vals = re.findall(r"//\s*(.+)\n\s*vec!\[([^\]]*)\]", src)
    return src, [{"value": v.strip(), "bytes": b.strip()} for v, b in vals]


def make_replay(pid, h, r, failed_checks, target_dir, scratch, extract=True):
    os.makedirs(os.path.join(OUT, "replays"), exist_ok=True)
    path = os.path.join(OUT, "replays", "%s-%s-%s.json" % (pid, h.name, r["fs"]))
    rep = {
        "property": pid,
        "harness": h.fq,
        "features": r["fs"],
        "kind": h.kind,
        "functions": h.fns,
        "failed_obligations": [{"obligation": c["description"], "check": c.get("id"), "location": c.get("location")} for c in failed_checks],
        "verifier_output_tail": r["raw"][-6000:],
        "counterexample": None,
        "native_replay": None,
        "created": time.strftime("%Y-%m-%dT%H:%M:%S"),
    }
    found = False
    if getattr(h, "l2", False):
        # a driver-generated instance has no symbolic input: the scenario (every control choice is a
        # literal in the generated harness) IS the failing input; the harness text is kept for re-running
        src = ""
        try:
            g = open(os.path.join(scratch, "gen.rs")).read()
            k = g.find("pub(crate) fn %s()" % h.name)
            if k >= 0:
                src = g[g.rfind("//@", 0, k):g.find("\n}\n", k) + 3]
        except OSError:
            pass
        rep["counterexample"] = {"scenario": h.bound, "generated_harness": src,
                                 "rerun": "./check %s --only %s" % (pid, h.name)}
        found = True
        # native replay: the same scenario through the public API only, real panics, plain `cargo test`
        try:
            import l2gen
            import l2native
            inst = None
            for t in ("quick", "thorough"):
                for i in l2gen.generate(pid, t, 0):
                    if i.name() == h.name:
                        inst = i
                        break
                if inst:
                    break
            if inst is None:
                rep["native_replay"] = {"ran": False, "why": "instance not found in the generator"}
            elif NATIVE_BUDGET[0] <= 0 or os.environ.get("VERIF_NO_NATIVE"):
                rep["native_replay"] = {"ran": False, "why": "native replay budget used / disabled"}
            else:
                NATIVE_BUDGET[0] -= 1
                rep["native_replay"] = l2native.run(inst, kanirun.REPO, r["fs"])
                if rep["native_replay"].get("ran") and rep["native_replay"].get("reproduced") is False:
                    found = False   # the verifier's scenario did not misbehave natively: reported, but flagged
        except Exception as e:
            rep["native_replay"] = {"ran": False, "why": "native replay error: %r" % (e,)}
        with open(path, "w") as f:
            json.dump(rep, f, indent=1)
        return path, found
    try:
        if not extract or os.environ.get("VERIF_NO_REPLAY"):
            raise RuntimeError("counterexample extraction skipped (budget)")
        # own copy of the built target dir: several extractions run in parallel
        tdir = os.path.join(scratch, "replay-%s-%s" % (h.name, r["fs"]))
        subprocess.run(["cp", "-a", target_dir, tdir], check=False)
        rr = kanirun.run_harness(tdir, r["fs"], h.fq, min(max(h.timeout, 120) * 2, 900),
                                 extra_args=["-Z", "concrete-playback", "--concrete-playback=print"])
        src, vals = extract_playback(rr["raw"])
        if src:
            rep["counterexample"] = {"kani_playback_test": src, "values": vals}
            found = True
            import playback
            if NATIVE_BUDGET[0] > 0 and not os.environ.get("VERIF_NO_NATIVE"):
                NATIVE_BUDGET[0] -= 1
                rep["native_replay"] = playback.run_native(h, r["fs"], src, scratch)
            else:
                rep["native_replay"] = {"ran": False, "why": "native replay budget (2 per run) used by earlier failures of this run"}
            if rep["native_replay"] and rep["native_replay"].get("reproduced") is False:
                found = False
        elif getattr(h, "concrete", False) or not re.search(r"kani::any|any_", open(os.path.join(VERIF, "kani", h.file)).read()):
            pass
    except Exception as e:  # replay must never turn a violation into a crash
        rep["replay_error"] = repr(e)
    # A harness without symbolic input IS its own failing input: the scenario is concrete.
    if not found and getattr(h, "scenario", None):
        rep["counterexample"] = {"scenario": h.scenario}
        found = True
    with open(path, "w") as f:
        json.dump(rep, f, indent=1)
    return path, found
