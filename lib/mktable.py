#!/usr/bin/env python3
"""Prints the per-property inventory (markdown) from the harness annotations and props.json."""
import json, os, sys
sys.path.insert(0, os.path.dirname(os.path.abspath(__file__)))
import driver, l2gen
P = json.load(open(os.path.join(driver.VERIF, "lib", "props.json")))
hs = driver.discover()
print("| property | level claimed | complete contract harnesses | bounded harnesses | L2 instances quick / thorough | functions under contract |")
print("|---|---|---|---|---|---|")
for pid in sorted(P):
    p = P[pid]
    if not p.get("claimed"):
        continue
    mine = [h for h in hs if pid in h.props and h.role != "canary"]
    comp = [h for h in mine if h.kind == "complete"]
    bnd = [h for h in mine if h.kind != "complete"]
    fns = sorted(set(f for h in mine for f in h.fns))
    if p.get("l2"):
        q = len(l2gen.select(l2gen.generate(pid, "quick", 0), p.get("l2_max_quick", 10**6), 0))
        t = min(len(l2gen.generate(pid, "thorough", 0)), p.get("l2_max_thorough", 10**6))
        l2 = "%d / %d" % (q, t)
    else:
        l2 = "-"
    extra = {"verus_trace": " + Verus (21 fns)", "native_limits": " + 2 native runs (bounded, not counted)"}.get(p.get("engine_extra"), "")
    print("| %s | %s | %d%s | %d | %s | %s |" % (pid, p["level"], len(comp), extra, len(bnd), l2, ", ".join(fns)[:400]))
