"""Kani runner.

Every run works on a SNAPSHOT taken at its start: /repo's current working tree (without target/ and
.git) and /verif/kani are copied into the run's scratch directory, and the cfg(kani) hooks in the
crate mount the proof modules from $VERIF_KANI_DIR (the copy).  So a run always verifies the tree as
it was when the check started, and edits made meanwhile cannot disturb it.

Harnesses are split into groups; each group is ONE `cargo kani --harness a --harness b ...`
invocation on its own copy of a pre-built target directory (kani-compiler only generates code for the
selected harnesses, so a group build takes seconds), groups run in parallel.  CBMC's per-check
results are parsed per harness.
"""
import concurrent.futures as cf
import os
import re
import shutil
import subprocess
import time

REAL_REPO = os.environ.get("VERIF_REPO", "/repo")
REPO = REAL_REPO          # replaced by the snapshot path in snapshot()

FEATURE_SETS = {
    # name -> cargo feature flags
    "full": ["--features", "weak-ptrs,cleaners"],                      # default (auto-collect, finalization, derive, std) + weak-ptrs + cleaners
    "std": ["--no-default-features", "--features", "std"],             # no finalization, no weak, no auto-collect
    "fin": ["--no-default-features", "--features", "std,finalization"],
    "finweak": ["--no-default-features", "--features", "std,finalization,weak-ptrs"],
    "auto": ["--no-default-features", "--features", "std,auto-collect"],
    # loop contracts are enabled ONLY for the harnesses that need them (Config::adjust): measured here,
    # `-Z loop-contracts` makes CBMC's contract instrumentation havoc unrelated state in other harnesses
    # (spurious failures), so it is never on globally.
    "full_lc": ["--features", "weak-ptrs,cleaners", "-Z", "loop-contracts"],
    "auto_lc": ["--no-default-features", "--features", "std,auto-collect", "-Z", "loop-contracts"],
}

KANI_FLAGS = ["-Z", "function-contracts", "-Z", "stubbing", "-Z", "unstable-options", "-Z", "mem-predicates"]
CBMC_ARGS = ["--cbmc-args", "--max-field-sensitivity-array-size", "512"]

ENV = dict(os.environ, CARGO_NET_OFFLINE="true", CARGO_TERM_COLOR="never")


class BuildError(Exception):
    pass


def snapshot(scratch, kani_src):
    """Copy the current working tree of the repository and the proof sources into `scratch`."""
    global REPO
    dst = os.path.join(scratch, "repo")
    subprocess.run(["rsync", "-a", "--exclude", "/target", "--exclude", "/.git", "--exclude", "/derive/target",
                    REAL_REPO.rstrip("/") + "/", dst + "/"], check=True)
    kdst = os.path.join(scratch, "kani")
    shutil.copytree(kani_src, kdst)
    REPO = dst
    ENV["VERIF_KANI_DIR"] = kdst
    ENV["VERIF_GEN_DIR"] = scratch
    gen = os.path.join(scratch, "gen.rs")
    if not os.path.exists(gen):
        open(gen, "w").write("// no generated harnesses\n")
    return dst, kdst


def _base_cmd(target_dir, fs):
    return ["cargo", "kani", "--target-dir", target_dir] + KANI_FLAGS + FEATURE_SETS[fs]


def build(target_dir, fs, log_path, extra_env=None):
    """Base build: dependencies + type-check of the whole crate with every proof module, code
    generation only for the canary.  Raises BuildError with the compiler output on failure."""
    env = dict(ENV)
    if extra_env:
        env.update(extra_env)
    t0 = time.time()
    p = subprocess.run(_base_cmd(target_dir, fs) + ["--only-codegen", "--exact", "--harness", "verif::canary_must_fail"],
                       cwd=REPO, env=env, stdout=subprocess.PIPE, stderr=subprocess.STDOUT, text=True)
    with open(log_path, "w") as f:
        f.write(p.stdout)
    if p.returncode != 0:
        errs = [l for l in p.stdout.splitlines() if l.startswith("error")]
        raise BuildError("kani build failed (%s): %s" % (fs, "; ".join(errs[:8]) or p.stdout[-2000:]))
    return time.time() - t0


CHECK_RE = re.compile(r"^Check (\d+): (.+?)\s*$")


def parse_output(out):
    """Returns dict(status, checks=[{name,status,description,location}], covers, time)"""
    checks = []
    cur = None
    for line in out.splitlines():
        m = CHECK_RE.match(line)
        if m:
            cur = {"id": m.group(2), "status": None, "description": "", "location": ""}
            checks.append(cur)
            continue
        s = line.strip()
        if cur is not None:
            if s.startswith("- Status:"):
                cur["status"] = s.split(":", 1)[1].strip()
            elif s.startswith("- Description:"):
                d = s.split(":", 1)[1].strip().strip('"')
                if d.startswith("|"):
                    # F1 contract clause: name it after the function whose contract it is
                    d = re.sub(r"::\{closure#\d+\}.*$", "", cur["id"]) + "::contract::ensures " + d
                cur["description"] = d
            elif s.startswith("- Location:"):
                cur["location"] = s.split(":", 1)[1].strip()
        if s.startswith("SUMMARY:") or s.startswith("VERIFICATION:"):
            cur = None
    status = "UNKNOWN"
    m = re.search(r"^VERIFICATION:- (\w+)", out, re.M)
    if m:
        status = m.group(1)
    vt = None
    m = re.search(r"^Verification Time: ([0-9.]+)s", out, re.M)
    if m:
        vt = float(m.group(1))
    return {"status": status, "checks": checks, "verification_time": vt}


def run_harness(target_dir, fs, harness, timeout, extra_args=None, extra_env=None, cbmc_extra=None):
    """One harness, one invocation (used for counterexample extraction)."""
    env = dict(ENV)
    if extra_env:
        env.update(extra_env)
    cmd = _base_cmd(target_dir, fs) + ["--harness", harness, "--exact"] + (extra_args or []) + CBMC_ARGS + (cbmc_extra or [])
    t0 = time.time()
    try:
        p = subprocess.run(cmd, cwd=REPO, env=env, stdout=subprocess.PIPE, stderr=subprocess.STDOUT,
                           text=True, timeout=timeout, start_new_session=True)
        out = p.stdout
        rc = p.returncode
        timed_out = False
    except subprocess.TimeoutExpired as e:
        out = (e.stdout or b"")
        if isinstance(out, bytes):
            out = out.decode("utf-8", "replace")
        rc = -9
        timed_out = True
        subprocess.run(["pkill", "-9", "-f", "--", target_dir], stdout=subprocess.DEVNULL, stderr=subprocess.DEVNULL)
    res = parse_output(out)
    res.update({"harness": harness, "fs": fs, "rc": rc, "wall": time.time() - t0, "timed_out": timed_out, "raw": out})
    if "Failed to match the following harness" in out or "no harnesses matched" in out.lower():
        res["status"] = "MISSING"
    elif timed_out:
        res["status"] = "TIMEOUT"
    elif res["status"] == "UNKNOWN":
        res["status"] = "ERROR"
    return res


SECTION_RE = re.compile(r"^Checking harness (\S+?)\.\.\.\s*$", re.M)


def run_group(base_dir, gdir, fs, jobs, extra=()):
    """jobs: list of dict(harness, timeout). One cargo-kani invocation; returns {harness: result}."""
    if os.path.isdir(gdir):
        shutil.rmtree(gdir, ignore_errors=True)
    subprocess.run(["cp", "-a", base_dir, gdir], check=True)
    env = dict(ENV)
    per = max(j["timeout"] for j in jobs)
    cmd = _base_cmd(gdir, fs) + ["--exact", "--harness-timeout", "%ds" % per] + list(extra)
    for j in jobs:
        cmd += ["--harness", j["harness"]]
    cmd += CBMC_ARGS
    total = sum(j["timeout"] for j in jobs) + 300
    t0 = time.time()
    timed_out = False
    try:
        p = subprocess.run(cmd, cwd=REPO, env=env, stdout=subprocess.PIPE, stderr=subprocess.STDOUT,
                           text=True, timeout=total, start_new_session=True)
        out = p.stdout
    except subprocess.TimeoutExpired as e:
        out = (e.stdout or b"")
        if isinstance(out, bytes):
            out = out.decode("utf-8", "replace")
        timed_out = True
        subprocess.run(["pkill", "-9", "-f", "--", gdir], stdout=subprocess.DEVNULL, stderr=subprocess.DEVNULL)
    wall = time.time() - t0
    # split per harness
    marks = [(m.start(), m.group(1)) for m in SECTION_RE.finditer(out)]
    res = {}
    head = out[:marks[0][0]] if marks else out
    for i, (pos, name) in enumerate(marks):
        end = marks[i + 1][0] if i + 1 < len(marks) else len(out)
        sec = out[pos:end]
        r = parse_output(sec)
        r.update({"harness": name, "fs": fs, "raw": sec, "timed_out": False, "wall": r["verification_time"] or 0.0})
        if "CBMC timed out" in sec:
            r["status"] = "TIMEOUT"
        elif r["status"] == "UNKNOWN":
            if re.search(r"timed out|timeout", sec, re.I):
                r["status"] = "TIMEOUT"
            else:
                r["status"] = "TIMEOUT" if (timed_out and i + 1 == len(marks)) else "ERROR"
        res[name] = r
    for j in jobs:
        if j["harness"] not in res:
            st = "MISSING" if ("Failed to match the following harness" in out or "no harnesses matched" in out.lower()) else ("TIMEOUT" if timed_out else "ERROR")
            res[j["harness"]] = {"harness": j["harness"], "fs": fs, "status": st, "checks": [], "verification_time": None,
                                 "raw": head[-6000:] + "\n...\n" + out[-6000:], "timed_out": timed_out, "wall": 0.0}
    shutil.rmtree(gdir, ignore_errors=True)
    return res, wall


def run_many(base_dirs, jobs, nproc=16, scratch=None):
    """jobs: list of dict(fs, harness, timeout, weight). base_dirs: fs -> built target dir.
    Returns list of results (same order)."""
    # group key: (feature set, reach-checks on/off).  Reachability checks (Kani's UNREACHABLE status) cost
    # 5-10x on the big concrete L2 instances (one SAT call + trace per reachable assertion), so those run
    # with --no-assertion-reach-checks and carry an explicit kani::cover! instead.
    by_fs = {}
    for i, j in enumerate(jobs):
        by_fs.setdefault((j["fs"], bool(j.get("noreach"))), []).append((i, j))
    # number of groups per fs proportional to its weight
    tot_w = sum(j.get("weight", 10) for j in jobs) or 1
    groups = []
    for (fs, noreach), items in by_fs.items():
        w = sum(j.get("weight", 10) for _, j in items)
        ng = max(1, min(len(items), int(round(nproc * w / tot_w)) or 1))
        bins = [[] for _ in range(ng)]
        load = [0] * ng
        for i, j in sorted(items, key=lambda x: -x[1].get("weight", 10)):
            k = load.index(min(load))
            bins[k].append((i, j))
            load[k] += j.get("weight", 10)
        for b in bins:
            if b:
                groups.append((fs, noreach, b))
    results = [None] * len(jobs)
    with cf.ThreadPoolExecutor(max_workers=nproc) as ex:
        futs = {}
        for gi, (fs, noreach, b) in enumerate(groups):
            gdir = os.path.join(scratch, "g%d-%s" % (gi, fs))
            futs[ex.submit(run_group, base_dirs[fs], gdir, fs, [j for _, j in b], ["--no-assertion-reach-checks"] if noreach else [])] = (fs, b)
        for f in cf.as_completed(futs):
            fs, b = futs[f]
            res, wall = f.result()
            for i, j in b:
                results[i] = res[j["harness"]]
    return results
