"""Kani runner: builds /repo's current working tree with the cfg(kani) hooks, runs harnesses in
parallel (one `cargo kani --harness X --exact` process each), parses CBMC's per-check results."""
import concurrent.futures as cf
import os
import re
import shutil
import subprocess
import time

REPO = os.environ.get("VERIF_REPO", "/repo")

FEATURE_SETS = {
    # name -> cargo feature flags
    "full": ["--features", "weak-ptrs,cleaners"],                      # default (auto-collect, finalization, derive, std) + weak-ptrs + cleaners
    "std": ["--no-default-features", "--features", "std"],             # no finalization, no weak, no auto-collect
    "fin": ["--no-default-features", "--features", "std,finalization"],
    "finweak": ["--no-default-features", "--features", "std,finalization,weak-ptrs"],
    "auto": ["--no-default-features", "--features", "std,auto-collect"],
    # loop contracts are enabled ONLY for the harnesses that need them (Config::adjust): measured here,
    # `-Z loop-contracts` makes CBMC's contract instrumentation havoc unrelated state in other harnesses
    # (spurious failures), so it is never on globally.
    "full_lc": ["--features", "weak-ptrs,cleaners", "-Z", "loop-contracts"],
    "auto_lc": ["--no-default-features", "--features", "std,auto-collect", "-Z", "loop-contracts"],
}

KANI_FLAGS = ["-Z", "function-contracts", "-Z", "stubbing", "-Z", "unstable-options", "-Z", "mem-predicates"]
CBMC_ARGS = ["--cbmc-args", "--max-field-sensitivity-array-size", "512"]

ENV = dict(os.environ, CARGO_NET_OFFLINE="true", CARGO_TERM_COLOR="never")


class BuildError(Exception):
    pass


def _base_cmd(target_dir, fs):
    return ["cargo", "kani", "--target-dir", target_dir] + KANI_FLAGS + FEATURE_SETS[fs]


def build(target_dir, fs, log_path, extra_env=None):
    """Codegen every harness once. Raises BuildError with the compiler output on failure."""
    env = dict(ENV)
    if extra_env:
        env.update(extra_env)
    gen = os.path.join(env["VERIF_GEN_DIR"], "gen.rs")
    if not os.path.exists(gen):
        open(gen, "w").write("// no generated harnesses\n")
    t0 = time.time()
    p = subprocess.run(_base_cmd(target_dir, fs) + ["--only-codegen"], cwd=REPO, env=env,
                       stdout=subprocess.PIPE, stderr=subprocess.STDOUT, text=True)
    with open(log_path, "w") as f:
        f.write(p.stdout)
    if p.returncode != 0:
        errs = [l for l in p.stdout.splitlines() if l.startswith("error")]
        raise BuildError("kani build failed (%s): %s" % (fs, "; ".join(errs[:8]) or p.stdout[-2000:]))
    return time.time() - t0


CHECK_RE = re.compile(r"^Check (\d+): (.+?)\s*$")


def parse_output(out):
    """Returns dict(status, checks=[{name,status,description,location}], covers, time)"""
    checks = []
    cur = None
    for line in out.splitlines():
        m = CHECK_RE.match(line)
        if m:
            cur = {"id": m.group(2), "status": None, "description": "", "location": ""}
            checks.append(cur)
            continue
        s = line.strip()
        if cur is not None:
            if s.startswith("- Status:"):
                cur["status"] = s.split(":", 1)[1].strip()
            elif s.startswith("- Description:"):
                d = s.split(":", 1)[1].strip().strip('"')
                if d.startswith("|"):
                    # F1 contract clause: name it after the function whose contract it is
                    d = re.sub(r"::\{closure#\d+\}.*$", "", cur["id"]) + "::contract::ensures " + d
                cur["description"] = d
            elif s.startswith("- Location:"):
                cur["location"] = s.split(":", 1)[1].strip()
        if s.startswith("SUMMARY:") or s.startswith("VERIFICATION:"):
            cur = None
    status = "UNKNOWN"
    m = re.search(r"^VERIFICATION:- (\w+)", out, re.M)
    if m:
        status = m.group(1)
    vt = None
    m = re.search(r"^Verification Time: ([0-9.]+)s", out, re.M)
    if m:
        vt = float(m.group(1))
    return {"status": status, "checks": checks, "verification_time": vt}


def run_harness(target_dir, fs, harness, timeout, extra_args=None, extra_env=None, cbmc_extra=None):
    env = dict(ENV)
    if extra_env:
        env.update(extra_env)
    cmd = _base_cmd(target_dir, fs) + ["--harness", harness, "--exact"] + (extra_args or []) + CBMC_ARGS + (cbmc_extra or [])
    t0 = time.time()
    try:
        p = subprocess.run(cmd, cwd=REPO, env=env, stdout=subprocess.PIPE, stderr=subprocess.STDOUT,
                           text=True, timeout=timeout, start_new_session=True)
        out = p.stdout
        rc = p.returncode
        timed_out = False
    except subprocess.TimeoutExpired as e:
        out = (e.stdout or b"")
        if isinstance(out, bytes):
            out = out.decode("utf-8", "replace")
        rc = -9
        timed_out = True
        # kill stray cbmc of that session
        subprocess.run(["pkill", "-9", "-f", "--", harness.split("::")[-1]], stdout=subprocess.DEVNULL, stderr=subprocess.DEVNULL)
    res = parse_output(out)
    res.update({"harness": harness, "fs": fs, "rc": rc, "wall": time.time() - t0, "timed_out": timed_out, "raw": out})
    if "Failed to match the following harness" in out or "no harnesses matched" in out.lower():
        res["status"] = "MISSING"
    elif timed_out:
        res["status"] = "TIMEOUT"
    elif res["status"] == "UNKNOWN":
        res["status"] = "ERROR"
    return res


def run_many(target_dir, jobs, nproc=16):
    """jobs: list of dict(fs, harness, timeout, extra_args). Returns list of results (same order)."""
    results = [None] * len(jobs)
    with cf.ThreadPoolExecutor(max_workers=nproc) as ex:
        futs = {}
        for i, j in enumerate(jobs):
            futs[ex.submit(run_harness, j["target_dir"] if "target_dir" in j else target_dir, j["fs"], j["harness"],
                           j.get("timeout", 300), j.get("extra_args"), j.get("extra_env"), j.get("cbmc_extra"))] = i
        for f in cf.as_completed(futs):
            results[futs[f]] = f.result()
    return results
