#!/bin/sh
# usage: lib/sweep.sh [tier] [ids...]   runs the checks one after another, prints a summary line each
TIER=${1:-quick}; shift
IDS=${@:-C01 C02 C03 C04 C05 C06 C07 C08 C09 C10 C11 C12 C13 C14 C15 C16 C17 C20}
cd "$(dirname "$0")/.."
for p in $IDS; do
  s=$(date +%s)
  out=$(./check $p --tier $TIER 2>&1 | grep -v "^WARNING")
  rc=$?
  echo "=== $p rc=$(echo "$out" | grep -c '^VIOLATION') wall=$(( $(date +%s) - s ))s"
  echo "$out" | tail -6
done
