// Specs and contract harnesses for src/utils.rs: cc_alloc / cc_dealloc (byte accounting: C11,
// free with the given layout: C03), alloc_other / dealloc_other, ResetMarkDropGuard.
use super::*;
use crate::cc::verif_proofs as ccp;
use crate::state::verif_proofs as sp;
use crate::verif::probes::{Big, Leaf, Zst};

/// Reading through a pointer that must have been released: CBMC must report a
/// "deallocated dynamic object" failure INSIDE this function (driver: `mustfail=expect_freed`).
#[inline(never)]
pub(crate) fn expect_freed(p: *const u8) -> u8 {
    unsafe { *p }
}

fn alloc_dealloc_roundtrip<T: Trace + 'static>() {
    let s = sp::any_state();
    let n = sp::snap(&s);
    let layout = Layout::new::<CcBox<T>>();
    kani::assume(n.bytes <= usize::MAX - layout.size());
    let p: NonNull<CcBox<T>> = unsafe { cc_alloc(layout, &s) };
    kani::assert(sp::snap(&s) == sp::Snap { bytes: n.bytes + layout.size(), ..n }, "cc_alloc::post::bytes_plus_layout_size");
    // the block is valid for the whole layout: first and last byte writable (CBMC bounds checks)
    if layout.size() > 0 {
        unsafe {
            core::ptr::write(p.as_ptr() as *mut u8, 1);
            core::ptr::write((p.as_ptr() as *mut u8).add(layout.size() - 1), 2);
        }
    }
    unsafe { cc_dealloc(p, layout, &s) };
    kani::assert(sp::snap(&s) == n, "cc_dealloc::post::bytes_minus_layout_size");
}

//@ C11 C03 | complete | deciding | feat=full,std | fn=cc_alloc,cc_dealloc
#[kani::proof]
pub(crate) fn utils_cc_alloc_dealloc_leaf() {
    alloc_dealloc_roundtrip::<Leaf>();
}

//@ C11 C03 | complete | deciding | feat=full | fn=cc_alloc,cc_dealloc
#[kani::proof]
pub(crate) fn utils_cc_alloc_dealloc_zst_and_big() {
    alloc_dealloc_roundtrip::<Zst>();
    alloc_dealloc_roundtrip::<Big>();
}

/// cc_dealloc really releases exactly `ptr`: a later read must be flagged by CBMC.
//@ C03 | complete | deciding | feat=full | fn=cc_dealloc | mustfail=expect_freed
#[kani::proof]
pub(crate) fn utils_cc_dealloc_releases_ptr() {
    let s = sp::any_state();
    let layout = Layout::new::<CcBox<Leaf>>();
    kani::assume(sp::snap(&s).bytes <= usize::MAX - layout.size());
    let p: NonNull<CcBox<Leaf>> = unsafe { cc_alloc(layout, &s) };
    unsafe { core::ptr::write(p.as_ptr() as *mut u8, 1) };
    unsafe { cc_dealloc(p, layout, &s) };
    let _ = expect_freed(p.as_ptr() as *const u8);
}

//@ C03 C09 | complete | deciding | feat=full,finweak | fn=alloc_other,dealloc_other
#[cfg(feature = "weak-ptrs")]
#[kani::proof]
pub(crate) fn utils_alloc_other_roundtrip() {
    unsafe {
        let p: NonNull<[u64; 3]> = alloc_other();
        core::ptr::write(p.as_ptr(), [1, 2, 3]);
        kani::assert((*p.as_ptr())[2] == 3, "alloc_other::post::valid_for_T");
        dealloc_other(p); // CBMC checks the layout given to dealloc matches the allocation
    }
}

//@ C03 C09 | complete | deciding | feat=full | fn=dealloc_other | mustfail=expect_freed
#[cfg(feature = "weak-ptrs")]
#[kani::proof]
pub(crate) fn utils_dealloc_other_releases_ptr() {
    unsafe {
        let p: NonNull<[u64; 3]> = alloc_other();
        core::ptr::write(p.as_ptr(), [1, 2, 3]);
        dealloc_other(p);
        let _ = expect_freed(p.as_ptr() as *const u8);
    }
}

//@ C07 | complete | deciding | feat=full,std | fn=ResetMarkDropGuard::new,ResetMarkDropGuard::drop
#[kani::proof]
pub(crate) fn utils_reset_mark_guard() {
    let p = crate::lists::verif_proofs::new_leaf_box(1);
    let (t, c) = crate::lists::verif_proofs::havoc_words(p);
    {
        let _g = ResetMarkDropGuard::new(p);
        kani::assert(ccp::words_of(p) == (t, c), "ResetMarkDropGuard::new::frame");
    }
    kani::assert(ccp::words_of(p) == (t & 0x3fff, c), "ResetMarkDropGuard::drop::post::non_marked_counters_kept");
}
