// L2 runtime: building blocks and oracles for the driver-generated composition instances
// (lib/l2gen.py writes one #[kani::proof] per instance into <scratch>/gen.rs; every CONTROL choice —
// shape, buffer order, held handles, finalized bits, stale-counter class, callback actions, script,
// fault point — is a literal in the generated code, so CBMC's symbolic execution stays concrete).
// Everything goes through the crate's REAL functions; ghost state lives in verif::ghost / probes.
use crate::cc::verif_proofs as ccp;
use crate::lists::verif_proofs as lp;
use crate::state::state;
use crate::state::verif_proofs as sp;
use crate::verif::ghost::{self, g, Act, MAX_OBJ};
use crate::verif::probes::*;
use crate::Cc;


// ------------------------------------------------------------------------------------------------
// Non-blocking obligations.  `kani::assert` is assert-then-assume: a failing obligation would cut the
// path and hide every later one (in particular the behavioural witness that must accompany a broken
// invariant clause).  The oracles therefore only RECORD failures; `finish()` reports each obligation
// under its own nondeterministically selected branch, so that all failing obligations are listed.
// ------------------------------------------------------------------------------------------------
macro_rules! obligations {
    ($($id:ident = $name:literal),* $(,)?) => {
        #[derive(Clone, Copy)]
        #[repr(usize)]
        pub(crate) enum Ob { $($id),*, N_ }
        pub(crate) fn finish() {
            let sel: usize = kani::any();
            let mut k = 0usize;
            $(
                if sel == k {
                    kani::assert(!unsafe { FAILED[Ob::$id as usize] }, $name);
                }
                k += 1;
            )*
            let _ = k;
        }
    };
}
pub(crate) static mut FAILED: [bool; 64] = [false; 64];
pub(crate) fn soft(cond: bool, ob: Ob) {
    if !cond {
        unsafe { FAILED[ob as usize] = true };
    }
}
obligations! {
    OExecs = "C11::executions_count_plus_one_per_collection",
    OLater = "C07::later_collection_can_start",
    O0 = "C01::reachable_object_never_dropped",
    O1 = "C01::reachable_object_value_intact",
    O2 = "C01::reachable_object_strong_count_positive",
    O3 = "C04::strong_count_equals_number_of_existing_pointers",
    O4 = "C04::strong_count_never_too_low_after_caught_panic",
    O5 = "Inv_idle::I1::only_unmarked_or_buffered_outside_collections",
    O6 = "Inv_idle::I3::buffered_object_has_tracing_counter_zero",
    O7 = "Inv_idle::I2::unbuffered_object_unlinked",
    O8 = "C03::dropped_at_most_once",
    O9 = "C05::finalized_at_most_once",
    O10 = "C05::finalize_before_drop",
    O11 = "C05::live_object_never_finalized",
    O12 = "C03::no_double_drop_no_corruption",
    O13 = "C05::no_callback_on_dropped_value",
    O14 = "C05::finalizer_sees_only_undropped_neighbours",
    O15 = "C05::finalized_flag_set_before_finalizer",
    O16 = "C05::created_in_finalizer_is_already_finalized",
    O17 = "C05::no_finalizer_without_feature",
    O18 = "C12::trace_runs_with_is_tracing_true",
    O19 = "C12::finalize_and_drop_run_with_is_tracing_false",
    O20 = "C08::upgrade_never_yields_dropped_value",
    O21 = "C08::marked_dropped_before_destructor",
    O22 = "Inv_idle::I1::collector_flags_clear",
    O23 = "C07::is_tracing_false_outside_collections",
    O24 = "C11::allocated_bytes_equals_sum_of_live_boxes",
    O25 = "C11::allocated_bytes_at_least_live_boxes_after_caught_panic",
    O26 = "C11::buffered_count_equals_buffer_length",
    O27 = "Inv_idle::I2::buffer_members_marked_buffered",
    O28 = "C11::buffered_objects_count_getter",
    O29 = "C02::unreachable_object_dropped",
    O30 = "C02::unreachable_object_finalized_iff_due",
    O31 = "C02::allocated_bytes_zero_when_nothing_remains",
    O32 = "C02::collection_reached_fixpoint",
    OFinDue = "C05::dropped_object_was_finalized_first_if_due",
    OFresh = "C07::after_the_caught_panic_new_objects_are_not_marked_finalized",
    OUnwrap = "C07::after_the_caught_panic_try_unwrap_of_a_fresh_unique_pointer_succeeds"
}

pub(crate) const S0: u8 = 0;
pub(crate) const S1: u8 = 1;
pub(crate) const HID: u8 = 2;

fn slot_of(n: &Node, slot: u8) -> &core::cell::RefCell<Option<Cc<Node>>> {
    match slot {
        0 => &n.s0,
        1 => &n.s1,
        _ => &n.hidden,
    }
}

/// create nodes 0..n through the real Cc::new; the creation handles are HELD[i]
pub(crate) fn mk(n: usize) {
    #[cfg(feature = "auto-collect")]
    let _ = crate::config::config(|c| c.set_auto_collect(false));
    let mut i = 0;
    while i < n {
        let c = ccp::mk_node(i as u8);
        unsafe { HELD[i] = Some(c) };
        i += 1;
    }
}
pub(crate) fn auto_collect_on() {
    #[cfg(feature = "auto-collect")]
    let _ = crate::config::config(|c| c.set_auto_collect(true));
}
/// node `from`.slot = a new Cc to node `to` (real Cc::clone)
pub(crate) fn link(from: usize, slot: u8, to: usize) {
    let c = ccp::clone_from_registry(to);
    put(slot_of(ccp::node_of(unsafe { ccp::REG[from].unwrap() }), slot), c);
}
/// buffer node i the way programs do: a second handle is dropped
pub(crate) fn touch(i: usize) {
    let c = ccp::clone_from_registry(i);
    drop(c);
}
/// the program drops its handle to node i
pub(crate) fn release(i: usize) {
    let h = unsafe { HELD[i].take() };
    drop(h);
}
/// drop whatever a finalizer stored
pub(crate) fn release_stash(i: usize) {
    let h = unsafe { STASH[i].take() };
    drop(h);
}
pub(crate) fn mark_alive(i: usize) {
    unsafe {
        if let Some(h) = &HELD[i] {
            h.mark_alive();
        }
    }
}
/// history: node i was finalized before (and resurrected)
pub(crate) fn set_fin(i: usize) {
    if dropped(i) {
        return;
    }
    let p = ccp::reg(i);
    let (t, c) = ccp::words_of(p);
    ccp::set_words_of(p, t, c | 0x4000);
    unsafe { PREFIN[i] = true };
}
/// history: stale tracing counter on an UNBUFFERED node (classes 0, 1, count-1, count, MAX)
pub(crate) fn stale(i: usize, class: u8) {
    if dropped(i) {
        return; // already reclaimed by reference counting while the scenario was being built
    }
    let p = ccp::reg(i);
    let (t, c) = ccp::words_of(p);
    if t >> 14 != 0 {
        return; // buffered: I3 says 0, leave it
    }
    let cnt = c & 0x3fff;
    let v = match class {
        0 => 0,
        1 => 1,
        2 => if cnt > 0 { cnt - 1 } else { 0 },
        3 => cnt,
        _ => 16382,
    };
    ccp::set_words_of(p, v, c);
}
#[cfg(feature = "weak-ptrs")]
pub(crate) fn weak(i: usize) {
    unsafe {
        if let Some(h) = &HELD[i] {
            let w = h.downgrade();
            if let Some(m) = crate::weak::verif_proofs::weak_parts(&w).0 {
                ccp::md::normalise_record_ptr(ccp::REG[i].unwrap(), m);
            }
            WEAKS[i] = Some(w);
        }
    }
}
pub(crate) fn act_fin(i: usize, a: Act, target: u8) {
    g().actions_on = true;
    g().fin_act[i] = a;
    g().act_target[i] = target;
}
pub(crate) fn act_drop(i: usize, a: Act, target: u8) {
    g().actions_on = true;
    g().drop_act[i] = a;
    g().act_target[i] = target;
}
pub(crate) fn fault(kind: u8, k: u16) {
    g().fault_kind = kind;
    g().fault_k = k;
}
pub(crate) fn collect() {
    crate::collect_cycles();
}
/// the emulated catch_unwind at the API boundary (A-UNWIND): was a panic propagating?
pub(crate) fn caught() -> bool {
    ghost::catch()
}
/// no fault armed any more
pub(crate) fn disarm() {
    g().fault_kind = 0;
}

// ------------------------------------------------------------------------------------------------
// oracles
// ------------------------------------------------------------------------------------------------
fn dropped(i: usize) -> bool {
    g().drop_calls[i] != 0
}

/// objects reachable from program-held pointers (HELD, STASH) through traced AND untraced slots
pub(crate) fn reach(n: usize) -> [bool; MAX_OBJ] {
    let mut r = [false; MAX_OBJ];
    let mut i = 0;
    while i < n {
        unsafe {
            if HELD[i].is_some() {
                r[i] = true;
            }
            if let Some(c) = &STASH[i] {
                r[ccp::peek_node(c).id as usize] = true;
            }
        }
        i += 1;
    }
    let mut round = 0;
    while round < n {
        let mut i = 0;
        while i < n {
            if r[i] && !dropped(i) {
                let nd = ccp::node_of(unsafe { ccp::REG[i].unwrap() });
                let mut s = 0u8;
                while s < 3 {
                    if let Some(j) = peek_id(slot_of(nd, s)) {
                        r[j as usize] = true;
                    }
                    s += 1;
                }
            }
            i += 1;
        }
        round += 1;
    }
    r
}

/// number of Cc values that exist and point to node i: handles + slots of undropped nodes
fn ghost_cc(i: usize, n: usize) -> u16 {
    let mut k = 0u16;
    let mut j = 0;
    while j < n {
        unsafe {
            if let Some(h) = &HELD[j] {
                if ccp::peek_node(h).id as usize == i {
                    k += 1;
                }
            }
            if let Some(h) = &STASH[j] {
                if ccp::peek_node(h).id as usize == i {
                    k += 1;
                }
            }
        }
        if !dropped(j) && !g_moved(j) {
            let nd = ccp::node_of(unsafe { ccp::REG[j].unwrap() });
            let mut s = 0u8;
            while s < 3 {
                if peek_id(slot_of(nd, s)) == Some(i as u8) {
                    k += 1;
                }
                s += 1;
            }
        }
        j += 1;
    }
    k
}
pub(crate) static mut MOVED: [bool; MAX_OBJ] = [false; MAX_OBJ];
/// history given to the scenario: object i was already finalized before the script started
pub(crate) static mut PREFIN: [bool; MAX_OBJ] = [false; MAX_OBJ];
fn g_moved(i: usize) -> bool {
    unsafe { MOVED[i] }
}

/// The safety oracle, evaluated whenever control is back in "the program" (outside every crate call).
/// `live0`: objects that were reachable from held handles before the script ran and whose handles the
/// script never released (they must never be finalized).  `panic_free`: no emulated unwind happened.
pub(crate) fn check_safety(n: usize, live0: [bool; MAX_OBJ], panic_free: bool) {
    let gs = g();
    let r = reach(n);
    let mut live = 0usize;
    let mut i = 0;
    while i < n {
        if r[i] {
            // C01: reachable => not dropped, not freed (the reads below are checked by CBMC), intact
            soft(gs.drop_calls[i] == 0, Ob::O0);
            if gs.drop_calls[i] == 0 {
                let p = ccp::reg(i);
                let nd = ccp::node_of(unsafe { ccp::REG[i].unwrap() });
                soft(nd.intact(), Ob::O1);
                soft(ccp::count_of(p) >= 1, Ob::O2);
            }
        }
        if gs.drop_calls[i] == 0 && !g_moved(i) {
            live += 1;
            let p = ccp::reg(i);
            let cnt = ccp::count_of(p);
            let gc = ghost_cc(i, n);
            if panic_free {
                soft(cnt == gc, Ob::O3);
            } else {
                soft(cnt >= gc, Ob::O4);
            }
            // Inv_idle: I1 marks, I2 links, I3 buffered => tracing counter 0
            let m = ccp::mark_of(p);
            soft(m == 0 || m == 1, Ob::O5);
            if m == 1 {
                soft(ccp::tracing_of(p) == 0, Ob::O6);
            } else {
                soft(ccp::next_of(p).is_none() && ccp::prev_of(p).is_none(), Ob::O7);
            }
        }
        // C03 / C05 counters
        soft(gs.drop_calls[i] <= 1, Ob::O8);
        soft(gs.finalize_calls[i] <= 1, Ob::O9);
        if gs.finalize_calls[i] != 0 && gs.drop_calls[i] != 0 {
            soft(gs.first_fin_seq[i] < gs.first_drop_seq[i], Ob::O10);
        }
        if live0[i] {
            soft(gs.finalize_calls[i] == 0, Ob::O11);
        }
        // C04/C02/C05: in panic-free runs a value is never dropped without its due finalizer having run first
        #[cfg(feature = "finalization")]
        if panic_free && gs.drop_calls[i] == 1 && !unsafe { PREFIN[i] } {
            soft(gs.finalize_calls[i] == 1, Ob::OFinDue);
        }
        i += 1;
    }
    soft(gs.double_drop == 0 && gs.canary_broken == 0, Ob::O12);
    soft(gs.fin_after_drop == 0 && gs.trace_after_drop == 0, Ob::O13);
    soft(gs.fin_saw_dropped_neighbour == 0, Ob::O14);
    soft(gs.fin_bit_unset_in_cb == 0, Ob::O15);
    soft(gs.new_in_finalizer_not_marked_finalized == 0, Ob::O16);
    soft(gs.fin_without_feature == 0, Ob::O17);
    soft(gs.trace_not_tracing == 0, Ob::O18);
    soft(gs.fin_while_tracing == 0 && gs.drop_while_tracing == 0, Ob::O19);
    soft(gs.upgrade_gave_dropped == 0, Ob::O20);
    soft(gs.drop_not_marked_dropped == 0, Ob::O21);
    // collector idle
    let sn = state(|s| sp::snap(s));
    soft(!sn.collecting && !sn.finalizing && !sn.dropping, Ob::O22);
    soft(!matches!(crate::state::is_tracing(), Ok(true)), Ob::O23);
    // C11: byte count and buffer
    if panic_free {
        soft(sn.bytes == live * ccp::NODE_BOX, Ob::O24);
    } else {
        soft(sn.bytes >= live * ccp::NODE_BOX, Ob::O25);
    }
    let (s, size) = ccp::pc_view();
    soft(s.wf && s.len == size, Ob::O26);
    let mut k = 0;
    while k < s.len {
        if let Some(p) = s.e[k] {
            soft(ccp::mark_of(p) == 1, Ob::O27);
        }
        k += 1;
    }
    soft(matches!(crate::state::buffered_objects_count(), Ok(v) if v == size), Ob::O28);
}

/// C02: every object of `mask` has been (finalized if due,) dropped exactly once and freed.
pub(crate) fn check_reclaimed(n: usize, mask: [bool; MAX_OBJ], due: [bool; MAX_OBJ]) {
    let gs = g();
    let mut i = 0;
    while i < n {
        if mask[i] {
            soft(gs.drop_calls[i] == 1, Ob::O29);
            #[cfg(feature = "finalization")]
            soft(gs.finalize_calls[i] == if due[i] { 1 } else { 0 }, Ob::O30);
        }
        i += 1;
    }
}
/// every object has been dropped exactly once and all memory is released
pub(crate) fn check_all_dropped(n: usize) {
    let gs = g();
    let mut i = 0;
    while i < n {
        soft(gs.drop_calls[i] == 1, Ob::O29);
        i += 1;
    }
    soft(state(|s| sp::snap(s)).bytes == 0, Ob::O31);
}
/// the buffer is empty and a further collection would run no callback
pub(crate) fn check_quiescent() {
    let before = ccp::cb_counts();
    let fd0 = (g().n_fin, g().n_drop);
    crate::collect_cycles();
    soft((g().n_fin, g().n_drop) == fd0, Ob::O32);
}
pub(crate) fn execs() -> usize {
    state(|s| sp::snap(s)).execs
}
pub(crate) fn check_execs(expect: usize) {
    soft(execs() == expect, Ob::OExecs);
}
pub(crate) fn check_later_collection(expect: usize) {
    soft(execs() == expect && !caught(), Ob::OLater);
}

/// C07 continuation: the collector is usable after the caught panic — an object created now (outside
/// every finalizer) is not born "already finalized", and try_unwrap of a fresh unique pointer succeeds
pub(crate) fn check_usable() {
    let c = Cc::new(Leaf(1));
    #[cfg(feature = "finalization")]
    soft(!c.already_finalized(), Ob::OFresh);
    match c.try_unwrap() {
        Ok(v) => {
            soft(v.0 == 1, Ob::OUnwrap);
        }
        Err(c) => {
            soft(false, Ob::OUnwrap);
            core::mem::forget(c);
        }
    }
}
