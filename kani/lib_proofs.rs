// Harnesses that need crate-root privacy (collect, __collect, trace_counting, ...).
