// Contract harnesses for the collector entry points and steps in src/lib.rs (crate-root privacy):
// collect_cycles, trigger_collection, collect, __trace_counting, __trace_roots, and the callback
// dispatchers CcBox::finalize_inner / CcBox::drop_inner they call.
use crate::cc::verif_proofs as ccp;
use crate::cc::CcBox;
use crate::lists::verif_proofs as lp;
use crate::lists::{LinkedList, LinkedQueue};
use crate::state::verif_proofs as sp;
use crate::state::state;
use crate::verif::ghost::{self, g};
use crate::verif::probes::*;
use crate::POSSIBLE_CYCLES;

type P = ccp::P;

fn lseq(l: &LinkedList) -> lp::Seq {
    lp::seq(lp::ll_first(l))
}
fn qseq(q: &LinkedQueue) -> lp::Seq {
    lp::qseq(lp::q_first(q))
}

// ------------------------------------------------------------------------------------------------
// C12: a collection never starts while another one is in progress
// ------------------------------------------------------------------------------------------------
/// collect_cycles() / trigger_collection() with `collecting` set (any finalizing/dropping): nothing at
/// all changes — executions count, flags, byte count, buffer, object headers — and no callback runs.
//@ C12 C11 C15 | complete | deciding | feat=full,std | fn=collect_cycles,trigger_collection | timeout=600
#[kani::proof]
#[kani::unwind(9)]
pub(crate) fn lib_collect_requests_are_noops_while_collecting() {
    let h = ccp::mk_node(0);
    let y = ccp::mk_node(1);
    let z = ccp::mk_node(2);
    let (x, py, pz) = (ccp::raw_of(&h), ccp::raw_of(&y), ccp::raw_of(&z));
    let in_pc: bool = kani::any();
    let (arr, n) = ccp::build_pc(x, [py, pz], in_pc);
    let wx = ccp::havoc_idle(x, in_pc);
    let (wy, wz) = (ccp::words_of(py), ccp::words_of(pz));
    let (f, d): (bool, bool) = (kani::any(), kani::any());
    #[cfg(not(feature = "finalization"))]
    let f = false;
    let execs: usize = kani::any();
    state(|s| {
        sp::set_flags(s, true, f, d);
        sp::set_execs(s, execs);
    });
    // make the automatic trigger WANT to collect, so that only the `collecting` test stops it
    #[cfg(feature = "auto-collect")]
    let _ = crate::config::config(|c| {
        c.set_auto_collect(true);
        c.set_buffered_objects_threshold(None);
    });
    #[cfg(feature = "auto-collect")]
    state(|s| sp::set_bytes(s, 1_000_000));
    let sn0 = state(|s| sp::snap(s));
    #[cfg(feature = "auto-collect")]
    let thr0 = crate::config::config(|c| crate::config::verif_proofs::threshold(c)).unwrap_or(0);
    if kani::any() {
        crate::collect_cycles();
    } else {
        #[cfg(feature = "auto-collect")]
        state(|s| crate::trigger_collection(s));
    }
    kani::assert(state(|s| sp::snap(s)) == sn0, "collect_cycles::while_collecting::frame::state_and_executions_count");
    { let (a, b) = ccp::pc_is(&arr, n, None); kani::assert(a && b, "collect_cycles::while_collecting::frame::buffer"); }
    kani::assert(ccp::words_of(x) == wx && ccp::words_of(py) == wy && ccp::words_of(pz) == wz, "collect_cycles::while_collecting::frame::objects");
    kani::assert(ccp::cb_counts() == (0, 0, 0), "collect_cycles::while_collecting::frame::no_callback");
    #[cfg(feature = "auto-collect")]
    kani::assert(crate::config::config(|c| crate::config::verif_proofs::threshold(c)).unwrap_or(0) == thr0, "collect_cycles::while_collecting::frame::threshold");
    core::mem::forget((h, y, z));
}

/// collect_cycles() outside a collection, empty buffer, called under ANY finalizing/dropping flags
/// (i.e. also from a finalizer / destructor of a plain Cc::drop): executions +1 exactly, `collecting`
/// false again afterwards, the other flags and the byte count untouched.
//@ C11 C12 C05 | complete | deciding | feat=full,std | fn=collect_cycles,collect | timeout=600
#[kani::proof]
#[kani::unwind(9)]
pub(crate) fn lib_collect_cycles_empty_buffer_counts_one_execution() {
    let (f, d): (bool, bool) = (kani::any(), kani::any());
    #[cfg(not(feature = "finalization"))]
    let f = false;
    let execs: usize = kani::any();
    kani::assume(execs < usize::MAX);
    state(|s| {
        sp::set_flags(s, false, f, d);
        sp::set_execs(s, execs);
    });
    let sn0 = state(|s| sp::snap(s));
    crate::collect_cycles();
    let sn1 = state(|s| sp::snap(s));
    kani::assert(sn1.execs == execs + 1, "collect::post::executions_count_plus_one");
    kani::assert(!sn1.collecting, "collect::post::collecting_false_after");
    kani::assert(sn1.finalizing == f && sn1.dropping == d && sn1.bytes == sn0.bytes, "collect::frame::other_flags_and_bytes");
    kani::assert(ccp::pc_view().1 == 0 && ccp::cb_counts() == (0, 0, 0), "collect::empty::frame::buffer_and_callbacks");
}

/// trigger_collection: executions delta == [not collecting && should_collect(before)], at most 1,
/// and 0 whenever auto_collect is off.  Buffer empty so that the collection itself is trivial.
//@ C15 C11 | complete | deciding | feat=full,auto | fn=trigger_collection,Config::should_collect | timeout=600
#[cfg(feature = "auto-collect")]
#[kani::proof]
#[kani::unwind(12)]
pub(crate) fn lib_trigger_collection_policy() {
    let auto: bool = kani::any();
    let collecting: bool = kani::any();
    // bytes around the initial threshold (100): 99, 100, 101 and a big value
    let sel: u8 = kani::any();
    kani::assume(sel < 4);
    let bytes: usize = match sel { 0 => 99, 1 => 100, 2 => 101, _ => 1000 };
    let bt: u8 = kani::any();
    kani::assume(bt < 3);
    let _ = crate::config::config(|c| {
        c.set_auto_collect(auto);
        c.set_buffered_objects_threshold(match bt { 0 => None, 1 => core::num::NonZeroUsize::new(1), _ => core::num::NonZeroUsize::new(5) });
    });
    let execs: usize = kani::any();
    kani::assume(execs < usize::MAX);
    state(|s| {
        sp::set_flags(s, collecting, false, false);
        sp::set_execs(s, execs);
        sp::set_bytes(s, bytes);
    });
    let thr0 = crate::config::config(|c| crate::config::verif_proofs::threshold(c)).unwrap_or(0);
    kani::assert(thr0 == 100, "Config::new::post::threshold_100");
    state(|s| crate::trigger_collection(s));
    let sn1 = state(|s| sp::snap(s));
    let expect = !collecting && auto && bytes > 100; // buffer empty: the buffered clause (0 > b) is false
    kani::assert(sn1.execs == execs + if expect { 1 } else { 0 }, "trigger_collection::post::collects_exactly_when_due_and_at_most_once");
    kani::assert(auto || sn1.execs == execs, "trigger_collection::post::never_when_auto_collect_disabled");
    kani::assert(sn1.collecting == collecting, "trigger_collection::post::collecting_flag_restored");
    let thr1 = crate::config::config(|c| crate::config::verif_proofs::threshold(c)).unwrap_or(0);
    if expect {
        kani::assert(thr1 > bytes && crate::config::verif_proofs::thr_ok(thr1), "trigger_collection::post::threshold_adjusted_after_collection");
    } else {
        kani::assert(thr1 == thr0, "trigger_collection::frame::threshold_untouched_without_collection");
    }
}

/// The buffered-objects clause of the trigger: with bytes below the threshold a collection starts
/// exactly when buffered count > configured threshold.
//@ C15 | complete | deciding | feat=full,auto | fn=trigger_collection,Config::should_collect | timeout=600
#[cfg(feature = "auto-collect")]
#[kani::proof]
#[kani::unwind(12)]
pub(crate) fn lib_trigger_collection_buffered_clause() {
    let a = ccp::mk_node(0);
    let b = ccp::mk_node(1);
    // buffer both through the public API
    drop(a.clone());
    drop(b.clone());
    let thr: u8 = kani::any();
    kani::assume(thr >= 1 && thr <= 3);
    let _ = crate::config::config(|c| c.set_buffered_objects_threshold(core::num::NonZeroUsize::new(thr as usize)));
    state(|s| sp::set_bytes(s, 50));
    let execs = state(|s| sp::snap(s)).execs;
    kani::assert(ccp::pc_view().1 == 2, "Cc::drop::shared::post::buffered_count_plus_one_iff_was_not_buffered");
    state(|s| crate::trigger_collection(s));
    let e1 = state(|s| sp::snap(s)).execs;
    kani::assert(e1 == execs + if 2 > thr as usize { 1 } else { 0 }, "trigger_collection::post::buffered_threshold_strictly_exceeded");
    core::mem::forget((a, b));
}

// ------------------------------------------------------------------------------------------------
// one counting step / one root-tracing step
// ------------------------------------------------------------------------------------------------
struct Env {
    root: LinkedList,
    non_root: LinkedList,
    queue: LinkedQueue,
}
fn forget_env(env: Env) {
    core::mem::forget(env.root);
    core::mem::forget(env.non_root);
    core::mem::forget(env.queue);
}
fn collecting_only() {
    state(|s| sp::set_flags(s, true, false, false));
}
/// header for an object just taken from the buffer / queue: NonMarked, unlinked, tracing <= counter
fn havoc_popped(x: P) -> (u16, u16) {
    let t: u16 = kani::any();
    // bit 15 of the counter word (side record allocated) stays as the real constructor left it: 0.
    // It is masked, not assumed: a symbolic bit would make symbolic execution follow the
    // side-record branch of CcBox::vtable() through a garbage pointer.
    let c: u16 = kani::any::<u16>() & 0x7fff;
    kani::assume(t >> 14 == 0 && (c & 0x3fff) >= 1 && (c & 0x3fff) <= 16382 && (t & 0x3fff) <= (c & 0x3fff));
    ccp::set_words_of(x, t, c);
    (t, c)
}

/// __trace_counting on an object without traced children: the callback runs exactly once with
/// is_tracing() true; afterwards the object is InList, in non_root_list iff tracing == counter,
/// in root_list otherwise; counters untouched.
//@ C01 C02 C12 | complete | deciding | feat=full,std | fn=__trace_counting,CcBox::trace_inner | timeout=600
#[kani::proof]
#[kani::unwind(9)]
pub(crate) fn lib_trace_counting_step_leaf() {
    let h = ccp::mk_node(0);
    let x = ccp::raw_of(&h);
    let (y, z) = (lp::new_leaf_box(1), lp::new_leaf_box(2));
    let (wy, wz) = (lp::havoc_words(y), lp::havoc_words(z));
    let (t0, c0) = havoc_popped(x);
    collecting_only();
    let mut env = Env { root: lp::ll_from(Some(y)), non_root: lp::ll_from(Some(z)), queue: lp::q_from(None, None) };
    crate::__trace_counting(x, &mut env.root, &mut env.non_root, &mut env.queue);
    let gs = g();
    kani::assert(gs.n_trace == 1 && gs.trace_calls[0] == 1, "__trace_counting::post::traced_exactly_once");
    kani::assert(gs.trace_not_tracing == 0, "__trace_counting::post::callback_sees_is_tracing");
    kani::assert(ccp::words_of(x) == ((t0 & 0x3fff) | 0x8000, c0), "__trace_counting::post::in_list_mark_counters_kept");
    let garbage = (t0 & 0x3fff) == (c0 & 0x3fff);
    let (r, nr) = (lseq(&env.root), lseq(&env.non_root));
    kani::assert(r.wf && nr.wf, "__trace_counting::post::lists_wellformed");
    kani::assert(lp::contains(&nr, x) == garbage, "__trace_counting::post::non_root_iff_all_references_counted");
    kani::assert(lp::contains(&r, x) == !garbage, "__trace_counting::post::root_iff_external_reference_remains");
    kani::assert(lp::contains(&r, y) && lp::contains(&nr, z) && r.len + nr.len == 3, "__trace_counting::frame::other_members");
    kani::assert(ccp::words_of(y) == wy && ccp::words_of(z) == wz, "__trace_counting::frame::other_objects");
    kani::assert(qseq(&env.queue).len == 0, "__trace_counting::frame::queue");
    forget_env(env);
    core::mem::forget(h);
}

/// ... with a traced child that this collection has not seen yet (NonMarked, STALE tracing counter):
/// the child is queued with tracing counter 1; an UNTRACED child is not touched at all.
//@ C01 C02 | complete | deciding | feat=full,std | fn=__trace_counting,CcBox::trace,Cc::trace | timeout=600
#[kani::proof]
#[kani::unwind(9)]
pub(crate) fn lib_trace_counting_step_children() {
    let h = ccp::mk_node(0);
    let c1 = ccp::mk_node(1);
    let c2 = ccp::mk_node(2);
    let (x, y, z) = (ccp::raw_of(&h), ccp::raw_of(&c1), ccp::raw_of(&c2));
    put(&ccp::peek_node(&h).s1, Some(c1));
    put(&ccp::peek_node(&h).hidden, Some(c2));
    let (t0, c0) = havoc_popped(x);
    let wy = ccp::havoc_idle(y, false);
    let wz = ccp::havoc_idle(z, false);
    collecting_only();
    let mut env = Env { root: lp::ll_from(None), non_root: lp::ll_from(None), queue: lp::q_from(None, None) };
    crate::__trace_counting(x, &mut env.root, &mut env.non_root, &mut env.queue);
    kani::assert(ccp::words_of(y) == (0xc000 | 1, wy.1), "__trace_counting::post::unseen_traced_child_queued_with_tracing_one");
    let q = qseq(&env.queue);
    kani::assert(q.len == 1 && q.e[0] == Some(y), "__trace_counting::post::unseen_traced_child_queued_with_tracing_one");
    kani::assert(ccp::words_of(z) == wz && ccp::next_of(z).is_none() && ccp::prev_of(z).is_none(), "__trace_counting::frame::untraced_child_untouched");
    let garbage = (t0 & 0x3fff) == (c0 & 0x3fff);
    kani::assert(lp::contains(&lseq(&env.non_root), x) == garbage && lp::contains(&lseq(&env.root), x) == !garbage, "__trace_counting::post::non_root_iff_all_references_counted");
    kani::assert(g().trace_calls[0] == 1 && g().trace_calls[1] == 0 && g().trace_calls[2] == 0, "__trace_counting::post::traced_exactly_once");
    forget_env(env);
    core::mem::forget(h);
}

/// ... with a self-loop: the object's own tracing counter is incremented by its own trace call and the
/// partition uses the incremented value.
//@ C01 C02 | complete | deciding | feat=full,std | fn=__trace_counting,CcBox::trace | timeout=600
#[kani::proof]
#[kani::unwind(9)]
pub(crate) fn lib_trace_counting_step_self_loop() {
    let h = ccp::mk_node(0);
    let x = ccp::raw_of(&h);
    let h2 = h.clone();
    put(&ccp::peek_node(&h).s0, Some(h2));
    let (t0, c0) = havoc_popped(x);
    kani::assume((t0 & 0x3fff) < (c0 & 0x3fff));
    collecting_only();
    let mut env = Env { root: lp::ll_from(None), non_root: lp::ll_from(None), queue: lp::q_from(None, None) };
    crate::__trace_counting(x, &mut env.root, &mut env.non_root, &mut env.queue);
    kani::assert(ccp::words_of(x) == (((t0 & 0x3fff) + 1) | 0x8000, c0), "__trace_counting::post::self_reference_counted_once");
    let garbage = (t0 & 0x3fff) + 1 == (c0 & 0x3fff);
    kani::assert(lp::contains(&lseq(&env.non_root), x) == garbage && lp::contains(&lseq(&env.root), x) == !garbage, "__trace_counting::post::non_root_iff_all_references_counted");
    kani::assert(qseq(&env.queue).len == 0, "__trace_counting::frame::queue");
    forget_env(env);
    core::mem::forget(h);
}

/// __trace_roots from a root: a traced child that is a garbage candidate (InList, counters equal)
/// is rescued (leaves non_root_list, queued); an UNTRACED child and the root itself are untouched.
//@ C01 C06 C12 | complete | deciding | feat=full,std | fn=__trace_roots,CcBox::trace | timeout=600
#[kani::proof]
#[kani::unwind(9)]
pub(crate) fn lib_trace_roots_step() {
    let h = ccp::mk_node(0);
    let c1 = ccp::mk_node(1);
    let c2 = ccp::mk_node(2);
    let (x, y, z) = (ccp::raw_of(&h), ccp::raw_of(&c1), ccp::raw_of(&c2));
    put(&ccp::peek_node(&h).s0, Some(c1));
    put(&ccp::peek_node(&h).hidden, Some(c2));
    // x: a root just removed from root_list; y, z: garbage candidates in non_root_list
    let (tx, cx) = havoc_popped(x);
    let cy: u16 = kani::any();
    kani::assume(cy >= 1 && cy <= 16382);
    let fy: u16 = kani::any();
    ccp::set_words_of(y, 0x8000 | cy, (fy & 0x4000) | cy);
    ccp::set_words_of(z, 0x8000 | 1, 1);
    let wz = ccp::words_of(z);
    let order: bool = kani::any();
    let first = if order { lp::chain(&[y, z], 2) } else { lp::chain(&[z, y], 2) };
    collecting_only();
    let mut env = Env { root: lp::ll_from(None), non_root: lp::ll_from(first), queue: lp::q_from(None, None) };
    crate::__trace_roots(x, &mut env.non_root, &mut env.queue);
    kani::assert(g().n_trace == 1 && g().trace_calls[0] == 1 && g().trace_not_tracing == 0, "__trace_roots::post::traced_once_while_tracing");
    kani::assert(ccp::words_of(x) == (tx, cx), "__trace_roots::frame::root_itself");
    kani::assert(ccp::words_of(y) == (0xc000 | cy, (fy & 0x4000) | cy), "__trace_roots::post::reachable_candidate_rescued");
    let nr = lseq(&env.non_root);
    kani::assert(nr.wf && nr.len == 1 && nr.e[0] == Some(z), "__trace_roots::post::reachable_candidate_leaves_non_root_list");
    let q = qseq(&env.queue);
    kani::assert(q.len == 1 && q.e[0] == Some(y), "__trace_roots::post::rescued_object_queued_for_root_tracing");
    kani::assert(ccp::words_of(z) == wz, "__trace_roots::frame::untraced_child_untouched");
    forget_env(env);
    core::mem::forget(h);
}

// ------------------------------------------------------------------------------------------------
// callback dispatchers
// ------------------------------------------------------------------------------------------------
/// finalize_inner: returns `needs_finalization` as it was; sets the flag BEFORE calling the finalizer;
/// calls it exactly once iff it was due; touches nothing else.
/// The counter word is concrete per case (finalized bit x count class): with a symbolic counter word
/// CBMC cannot resolve the vtable read in CcBox::vtable() (it depends on bit 15 of that word) and
/// explores every function of matching signature.  The tracing word (mark + tracing counter) is symbolic.
#[cfg(feature = "finalization")]
fn finalize_inner_case(c0: u16) {
    let h = ccp::mk_node(0);
    let x = ccp::raw_of(&h);
    let t0: u16 = kani::any();
    kani::assume((t0 & 0x3fff) != 0x3fff);
    ccp::set_words_of(x, t0, c0);
    state(|s| sp::set_flags(s, true, true, false));
    let due = c0 & 0x4000 == 0;
    let r = CcBox::finalize_inner(x);
    let gs = g();
    kani::assert(r == due, "CcBox::finalize_inner::post::returns_whether_it_finalized");
    kani::assert(gs.n_fin == if due { 1 } else { 0 }, "CcBox::finalize_inner::post::finalizer_called_once_iff_due");
    kani::assert(gs.fin_bit_unset_in_cb == 0, "CcBox::finalize_inner::post::flag_set_before_callback");
    kani::assert(gs.fin_while_tracing == 0, "CcBox::finalize_inner::post::callback_not_tracing");
    kani::assert(ccp::words_of(x) == (t0, c0 | 0x4000), "CcBox::finalize_inner::post::only_the_finalized_bit_changes");
    kani::assert(gs.n_drop == 0 && gs.n_trace == 0 && gs.canary_broken == 0, "CcBox::finalize_inner::frame::no_other_callback");
    core::mem::forget(h);
}
//@ C05 | complete | deciding | feat=full,fin | fn=CcBox::finalize_inner | timeout=600
#[cfg(feature = "finalization")]
#[kani::proof]
#[kani::unwind(9)]
pub(crate) fn lib_finalize_inner_due() {
    finalize_inner_case(3);
}
//@ C05 | complete | deciding | feat=full,fin | fn=CcBox::finalize_inner | timeout=600
#[cfg(feature = "finalization")]
#[kani::proof]
#[kani::unwind(9)]
pub(crate) fn lib_finalize_inner_already_finalized() {
    finalize_inner_case(0x4000 | 3);
}
//@ C05 C16 | complete | deciding | thorough | feat=full,fin | fn=CcBox::finalize_inner | timeout=600
#[cfg(feature = "finalization")]
#[kani::proof]
#[kani::unwind(9)]
pub(crate) fn lib_finalize_inner_due_count_max() {
    finalize_inner_case(16382);
}

/// drop_inner: marks the object dropped (weak-ptrs) BEFORE the destructor, runs the destructor exactly
/// once, does not free the box and does not touch the reference counter.  (Counter word concrete per
/// case, tracing word symbolic: see finalize_inner_case.)
fn drop_inner_case(c0: u16) {
    let h = ccp::mk_node(0);
    let x = ccp::raw_of(&h);
    let t0: u16 = kani::any();
    kani::assume((t0 & 0x3fff) != 0x3fff);
    ccp::set_words_of(x, t0, c0);
    state(|s| sp::set_flags(s, true, false, true));
    let b0 = state(|s| sp::snap(s)).bytes;
    unsafe { CcBox::drop_inner(x) };
    let gs = g();
    kani::assert(gs.n_drop == 1 && gs.drop_calls[0] == 1, "CcBox::drop_inner::post::destructor_called_once");
    kani::assert(gs.drop_not_marked_dropped == 0, "CcBox::drop_inner::post::marked_dropped_before_destructor");
    kani::assert(gs.drop_while_tracing == 0 && gs.canary_broken == 0, "CcBox::drop_inner::post::callback_not_tracing_value_intact");
    let (t1, c1) = ccp::words_of(x); // the box is still allocated (CBMC pointer checks on this read)
    kani::assert(c1 == c0, "CcBox::drop_inner::frame::reference_counter_word");
    #[cfg(feature = "weak-ptrs")]
    kani::assert(t1 == (t0 | 0x3fff), "CcBox::drop_inner::post::dropped_marker_set_mark_kept");
    #[cfg(not(feature = "weak-ptrs"))]
    kani::assert(t1 == t0, "CcBox::drop_inner::frame::tracing_word");
    kani::assert(state(|s| sp::snap(s)).bytes == b0 && gs.n_fin == 0, "CcBox::drop_inner::frame::not_freed_not_finalized");
    core::mem::forget(h);
}
//@ C08 C03 | complete | deciding | feat=full,std | fn=CcBox::drop_inner | timeout=600
#[kani::proof]
#[kani::unwind(9)]
pub(crate) fn lib_drop_inner_contract() {
    drop_inner_case(0x4000);
}
//@ C08 C03 | complete | deciding | thorough | feat=full,std | fn=CcBox::drop_inner | timeout=600
#[kani::proof]
#[kani::unwind(9)]
pub(crate) fn lib_drop_inner_contract_count_two_unfinalized() {
    drop_inner_case(2);
}

// ------------------------------------------------------------------------------------------------
// deallocate_list / __collect on explicit non-root sets (bounded by list length 2)
// ------------------------------------------------------------------------------------------------
/// deallocate_list over a set of two objects: every destructor runs exactly once, under `dropping`
/// (and not tracing), each object marked dropped first; then both boxes are released with their layout,
/// allocated_bytes decreases by exactly their sizes, `dropping` is restored.
//@ C03 C02 C08 C12 | bounded: non-root set of 2 objects | deciding | feat=full,std | fn=deallocate_list,CcBox::drop_inner,cc_dealloc,CcBox::layout | timeout=900
#[kani::proof]
#[kani::unwind(9)]
pub(crate) fn lib_deallocate_list_two_members() {
    let a = ccp::mk_node(0);
    let b = ccp::mk_node(1);
    let (x, y) = (ccp::raw_of(&a), ccp::raw_of(&b));
    core::mem::forget((a, b));
    // as the collector leaves a garbage set: InList, tracing counter == counter (here: no internal edges)
    // counter words concrete (dyn dispatch follows): one member never finalized (finalization off / not due), one finalized
    ccp::set_words_of(x, 0x8000, 0);
    ccp::set_words_of(y, 0x8000, 0x4000);
    let first = lp::chain(&[x, y], 2);
    state(|s| sp::set_flags(s, true, false, false));
    let sn0 = state(|s| sp::snap(s));
    state(|s| crate::deallocate_list(lp::ll_from(first), s));
    let gs = g();
    kani::assert(gs.n_drop == 2 && gs.drop_calls[0] == 1 && gs.drop_calls[1] == 1 && gs.double_drop == 0, "deallocate_list::post::every_member_dropped_exactly_once");
    kani::assert(gs.drop_flags & 4 != 0 && gs.drop_while_tracing == 0, "deallocate_list::post::destructors_run_under_dropping_not_tracing");
    kani::assert(gs.drop_not_marked_dropped == 0, "deallocate_list::post::marked_dropped_before_destructor");
    kani::assert(gs.n_fin == 0 && gs.n_trace == 0 && gs.canary_broken == 0, "deallocate_list::frame::no_other_callback");
    let sn1 = state(|s| sp::snap(s));
    kani::assert(sn1.bytes == sn0.bytes - 2 * ccp::NODE_BOX, "deallocate_list::post::allocated_bytes_minus_member_sizes");
    kani::assert(sp::Snap { bytes: sn0.bytes, ..sn1 } == sn0, "deallocate_list::post::dropping_flag_restored");
    kani::assert(ccp::pc_view().1 == 0, "deallocate_list::frame::buffer");
}

/// ... and the boxes really are released (CBMC must flag the read).
//@ C03 C02 | bounded: non-root set of 1 object | deciding | feat=full | fn=deallocate_list | mustfail=expect_freed | timeout=600
#[kani::proof]
#[kani::unwind(9)]
pub(crate) fn lib_deallocate_list_releases_boxes() {
    let a = ccp::mk_node(0);
    let x = ccp::raw_of(&a);
    core::mem::forget(a);
    ccp::set_words_of(x, 0x8000, 0x4000);
    let first = lp::chain(&[x], 1);
    state(|s| sp::set_flags(s, true, false, false));
    state(|s| crate::deallocate_list(lp::ll_from(first), s));
    let _ = crate::utils::verif_proofs::expect_freed(x.as_ptr() as *const u8);
}

/// executions_count() counts every collection actually STARTED: also one that unwinds out of a callback.
//@ C11 C07 | bounded: one buffered object whose trace panics (emulated unwind) | deciding | feat=full,std | fn=collect,collect_cycles | timeout=600
#[kani::proof]
#[kani::unwind(12)]
pub(crate) fn lib_collect_counts_the_execution_even_when_it_unwinds() {
    #[cfg(feature = "auto-collect")]
    let _ = crate::config::config(|c| c.set_auto_collect(false));
    let h = ccp::mk_node(0);
    drop(h.clone()); // buffered
    g().fault_kind = 1;
    g().fault_k = 1;
    let e0 = state(|s| sp::snap(s)).execs;
    crate::collect_cycles();
    kani::assert(ghost::catch(), "collect::unwind::panic_propagates_to_the_caller");
    let sn = state(|s| sp::snap(s));
    kani::assert(sn.execs == e0 + 1, "collect::post::executions_count_plus_one_for_every_collection_started");
    kani::assert(!sn.collecting && !sn.finalizing && !sn.dropping, "collect::unwind::collecting_false");
    core::mem::forget(h);
}

/// drop_inner with a side record: the record (weak count AND accessible bit) is not touched — the
/// box is still allocated after drop_inner, so the record must keep saying so (the hand-over to the
/// Weaks happens in drop_metadata, after the layout was read).
//@ C03 C08 C09 | complete | deciding | feat=full,finweak | fn=CcBox::drop_inner | timeout=600
#[cfg(feature = "weak-ptrs")]
#[kani::proof]
#[kani::unwind(9)]
pub(crate) fn lib_drop_inner_keeps_side_record() {
    let h = ccp::mk_node(0);
    let x = ccp::raw_of(&h);
    let m = h.inner().get_or_init_metadata();
    ccp::md::normalise_record_ptr(unsafe { ccp::REG[0].unwrap() }, m);
    let k: u16 = kani::any();
    kani::assume(k <= 32767);
    ccp::md::set_wword(m, 0x8000 | k);
    let t0: u16 = kani::any();
    kani::assume((t0 & 0x3fff) != 0x3fff);
    let c0 = 0x8000 | 0x4000 | 2;
    ccp::set_words_of(x, t0, c0);
    state(|s| sp::set_flags(s, true, false, true));
    unsafe { CcBox::drop_inner(x) };
    kani::assert(g().n_drop == 1, "CcBox::drop_inner::post::destructor_called_once");
    kani::assert(ccp::md::wword(m) == 0x8000 | k, "CcBox::drop_inner::frame::side_record_count_and_accessible_bit");
    kani::assert(ccp::words_of(x).1 == c0 && ccp::md::md_of(x) == Some(m), "CcBox::drop_inner::frame::reference_counter_word");
    core::mem::forget(h);
}
