// Specs and contract harnesses for src/counter_marker.rs (child module => private fields visible).
//
// F1: the six mutators carry in-place `kani::requires/ensures/modifies` attributes in
//     /repo/src/counter_marker.rs; they are proved here by `proof_for_contract` harnesses over a
//     fully symbolic 32-bit word pair (all 2^32 states: complete, loop-free).
// F2: getters / flag setters / decoders / constructor: assume-assert harnesses over the same state.
use super::*;

// ---------------------------------------------------------------- spec functions
pub(crate) const RESERVED: u16 = COUNTER_MASK; // all-ones field value

/// reference counter field is not the reserved value
pub(crate) fn rc_valid(cm: &CounterMarker) -> bool {
    (cm.counter.get() & COUNTER_MASK) != RESERVED
}
/// tracing counter field is not the reserved ("dropped") value
pub(crate) fn tc_valid(cm: &CounterMarker) -> bool {
    (cm.tracing_counter.get() & COUNTER_MASK) != RESERVED
}

/// Postcondition shared by the four +-1 operations on a 14-bit field `w0 -> w1` of one word:
/// at the boundary `limit` the call fails and the word is unchanged; otherwise it succeeds, the
/// field moved by exactly `delta` and the two flag bits of the word are untouched.
pub(crate) fn post_step(w0: u16, w1: u16, ok: bool, delta: i32, limit: u16) -> bool {
    let f0 = w0 & COUNTER_MASK;
    let f1 = w1 & COUNTER_MASK;
    if f0 == limit {
        !ok && w1 == w0
    } else {
        ok && (f1 as i32) == (f0 as i32) + delta && (w1 & BITS_MASK) == (w0 & BITS_MASK) && f1 != RESERVED
    }
}

pub(crate) fn any_cm() -> CounterMarker {
    CounterMarker {
        tracing_counter: Cell::new(kani::any()),
        counter: Cell::new(kani::any()),
    }
}

/// Build a counter marker from raw words (used by the harnesses of other files).
pub(crate) fn cm_from_words(tracing: u16, counter: u16) -> CounterMarker {
    CounterMarker {
        tracing_counter: Cell::new(tracing),
        counter: Cell::new(counter),
    }
}
pub(crate) fn words(cm: &CounterMarker) -> (u16, u16) {
    (cm.tracing_counter.get(), cm.counter.get())
}
pub(crate) fn set_words(cm: &CounterMarker, tracing: u16, counter: u16) {
    cm.tracing_counter.set(tracing);
    cm.counter.set(counter);
}
pub(crate) const M_COUNTER_MASK: u16 = COUNTER_MASK;
pub(crate) const M_BITS_MASK: u16 = BITS_MASK;
pub(crate) const M_FINALIZED: u16 = FINALIZED_MASK;
pub(crate) const M_METADATA: u16 = FIRST_BIT_MASK;
pub(crate) const M_IN_PC: u16 = IN_POSSIBLE_CYCLES;
pub(crate) const M_IN_LIST: u16 = IN_LIST;
pub(crate) const M_IN_QUEUE: u16 = IN_QUEUE;

// ---------------------------------------------------------------- F1 contract harnesses
//@ C16 C04 C01 | complete | deciding | feat=full,std | fn=CounterMarker::increment_counter
#[kani::proof_for_contract(CounterMarker::increment_counter)]
pub(crate) fn contract_increment_counter() {
    let cm = any_cm();
    let (t0, c0) = words(&cm);
    let r = cm.increment_counter();
    // restated as plain assertions so that a counterexample replays natively (playback ignores contracts)
    kani::assert(post_step(c0, cm.counter.get(), r.is_ok(), 1, 16382), "CounterMarker::increment_counter::post::plus_one_or_err_unchanged_at_16382");
    kani::assert(cm.tracing_counter.get() == t0, "CounterMarker::increment_counter::frame::tracing_word");
}

//@ C16 C04 C01 | complete | deciding | feat=full,std | fn=CounterMarker::decrement_counter
#[kani::proof_for_contract(CounterMarker::decrement_counter)]
pub(crate) fn contract_decrement_counter() {
    let cm = any_cm();
    let (t0, c0) = words(&cm);
    let r = cm.decrement_counter();
    kani::assert(post_step(c0, cm.counter.get(), r.is_ok(), -1, 0), "CounterMarker::decrement_counter::post::minus_one_or_err_unchanged_at_0");
    kani::assert(cm.tracing_counter.get() == t0, "CounterMarker::decrement_counter::frame::tracing_word");
}

//@ C16 C01 | complete | deciding | feat=full,std | fn=CounterMarker::increment_tracing_counter
#[kani::proof_for_contract(CounterMarker::increment_tracing_counter)]
pub(crate) fn contract_increment_tracing_counter() {
    let cm = any_cm();
    let (t0, c0) = words(&cm);
    let r = cm.increment_tracing_counter();
    kani::assert(post_step(t0, cm.tracing_counter.get(), r.is_ok(), 1, 16382), "CounterMarker::increment_tracing_counter::post::plus_one_or_err_unchanged_at_16382");
    kani::assert(cm.counter.get() == c0, "CounterMarker::increment_tracing_counter::frame::counter_word");
}

//@ C16 | complete | helper | feat=full,std | fn=CounterMarker::_decrement_tracing_counter
#[kani::proof_for_contract(CounterMarker::_decrement_tracing_counter)]
pub(crate) fn contract_decrement_tracing_counter() {
    let cm = any_cm();
    let (t0, c0) = words(&cm);
    let r = cm._decrement_tracing_counter();
    kani::assert(post_step(t0, cm.tracing_counter.get(), r.is_ok(), -1, 0), "CounterMarker::_decrement_tracing_counter::post::minus_one_or_err_unchanged_at_0");
    kani::assert(cm.counter.get() == c0, "CounterMarker::_decrement_tracing_counter::frame::counter_word");
}

//@ C16 C01 | complete | deciding | feat=full,std | fn=CounterMarker::reset_tracing_counter
#[kani::proof_for_contract(CounterMarker::reset_tracing_counter)]
pub(crate) fn contract_reset_tracing_counter() {
    let cm = any_cm();
    let (t0, c0) = words(&cm);
    cm.reset_tracing_counter();
    kani::assert(cm.tracing_counter.get() == t0 & 0xc000, "CounterMarker::reset_tracing_counter::post::field_zero_mark_kept");
    kani::assert(cm.counter.get() == c0, "CounterMarker::reset_tracing_counter::frame::counter_word");
}

//@ C16 C01 | complete | deciding | feat=full,std | fn=CounterMarker::mark
#[kani::proof_for_contract(CounterMarker::mark)]
pub(crate) fn contract_mark() {
    let cm = any_cm();
    let m = match kani::any::<u8>() % 4 {
        0 => Mark::NonMarked,
        1 => Mark::PossibleCycles,
        2 => Mark::InList,
        _ => Mark::InQueue,
    };
    let (t0, c0) = words(&cm);
    cm.mark(m);
    kani::assert(cm.tracing_counter.get() == (t0 & 0x3fff) | (m as u16), "CounterMarker::mark::post::mark_set_field_kept");
    kani::assert(cm.counter.get() == c0, "CounterMarker::mark::frame::counter_word");
}

// ---------------------------------------------------------------- F2 harnesses
/// The exact limits promised by the API docs / C16: 16382 strong references.
//@ C16 | complete | deciding | feat=full,std
#[kani::proof]
pub(crate) fn cm_limits() {
    kani::assert(MAX == 16382, "CounterMarker::MAX::is_16382");
    kani::assert(COUNTER_MASK == 0x3fff, "CounterMarker::COUNTER_MASK::14_bits");
    kani::assert(BITS_MASK == 0xc000 && FIRST_BIT_MASK == 0x8000 && FINALIZED_MASK == 0x4000, "CounterMarker::flag_masks");
}

//@ C16 C04 C05 | complete | deciding | feat=full,std | fn=CounterMarker::new_with_counter_to_one
#[kani::proof]
pub(crate) fn cm_new() {
    let f: bool = kani::any();
    let cm = CounterMarker::new_with_counter_to_one(f);
    kani::assert(cm.counter() == 1, "CounterMarker::new::post::counter_one");
    kani::assert(cm.tracing_counter() == 0 || cm.tracing_counter() == 1, "CounterMarker::new::post::tracing_small");
    kani::assert(cm.is_not_marked() && !cm.is_in_possible_cycles() && !cm.is_in_list_or_queue(), "CounterMarker::new::post::non_marked");
    #[cfg(feature = "finalization")]
    kani::assert(cm.needs_finalization() == !f, "CounterMarker::new::post::finalized_bit");
    #[cfg(feature = "weak-ptrs")]
    {
        kani::assert(!cm.has_allocated_for_metadata(), "CounterMarker::new::post::no_metadata");
        kani::assert(!cm.is_dropped(), "CounterMarker::new::post::not_dropped");
    }
}

//@ C16 C04 | complete | deciding | feat=full,std | fn=CounterMarker::counter,CounterMarker::tracing_counter
#[kani::proof]
pub(crate) fn cm_getters() {
    let cm = any_cm();
    let (t, c) = words(&cm);
    kani::assume(rc_valid(&cm) && tc_valid(&cm));
    kani::assert(cm.counter() == c & 0x3fff, "CounterMarker::counter::post::masked_field");
    kani::assert(cm.tracing_counter() == t & 0x3fff, "CounterMarker::tracing_counter::post::masked_field");
    kani::assert(words(&cm) == (t, c), "CounterMarker::getters::frame");
}

//@ C16 C01 | complete | deciding | feat=full,std | fn=CounterMarker::is_not_marked,CounterMarker::is_in_possible_cycles,CounterMarker::is_in_list,CounterMarker::is_in_list_or_queue
#[kani::proof]
pub(crate) fn cm_mark_decode() {
    let cm = any_cm();
    let (t, c) = words(&cm);
    let top = t >> 14;
    kani::assert(cm.is_not_marked() == (top == 0 || top == 1), "CounterMarker::is_not_marked::decode");
    kani::assert(cm.is_in_possible_cycles() == (top == 1), "CounterMarker::is_in_possible_cycles::decode");
    kani::assert(cm.is_in_list() == (top == 2), "CounterMarker::is_in_list::decode");
    kani::assert(cm._is_in_queue() == (top == 3), "CounterMarker::is_in_queue::decode");
    kani::assert(cm.is_in_list_or_queue() == (top == 2 || top == 3), "CounterMarker::is_in_list_or_queue::decode");
    kani::assert(words(&cm) == (t, c), "CounterMarker::decoders::frame");
    kani::assert(Mark::NonMarked as u16 == 0 && Mark::PossibleCycles as u16 == 0x4000
        && Mark::InList as u16 == 0x8000 && Mark::InQueue as u16 == 0xc000, "Mark::encoding");
}

//@ C16 C05 | complete | deciding | feat=full,fin | fn=CounterMarker::needs_finalization,CounterMarker::set_finalized
#[cfg(feature = "finalization")]
#[kani::proof]
pub(crate) fn cm_finalized_bit() {
    let cm = any_cm();
    let (t, c) = words(&cm);
    let v: bool = kani::any();
    kani::assert(cm.needs_finalization() == ((c & 0x4000) == 0), "CounterMarker::needs_finalization::decode");
    cm.set_finalized(v);
    kani::assert(cm.needs_finalization() == !v, "CounterMarker::set_finalized::post::get_after_set");
    kani::assert(cm.counter.get() & !0x4000 == c & !0x4000, "CounterMarker::set_finalized::frame::other_bits");
    kani::assert(cm.tracing_counter.get() == t, "CounterMarker::set_finalized::frame::tracing_word");
}

//@ C16 C09 | complete | deciding | feat=full,finweak | fn=CounterMarker::has_allocated_for_metadata,CounterMarker::set_allocated_for_metadata
#[cfg(feature = "weak-ptrs")]
#[kani::proof]
pub(crate) fn cm_metadata_bit() {
    let cm = any_cm();
    let (t, c) = words(&cm);
    let v: bool = kani::any();
    kani::assert(cm.has_allocated_for_metadata() == ((c & 0x8000) != 0), "CounterMarker::has_allocated_for_metadata::decode");
    cm.set_allocated_for_metadata(v);
    kani::assert(cm.has_allocated_for_metadata() == v, "CounterMarker::set_allocated_for_metadata::post::get_after_set");
    kani::assert(cm.counter.get() & !0x8000 == c & !0x8000, "CounterMarker::set_allocated_for_metadata::frame::other_bits");
    kani::assert(cm.tracing_counter.get() == t, "CounterMarker::set_allocated_for_metadata::frame::tracing_word");
}

//@ C16 C08 | complete | deciding | feat=full,finweak | fn=CounterMarker::is_dropped,CounterMarker::set_dropped
#[cfg(feature = "weak-ptrs")]
#[kani::proof]
pub(crate) fn cm_dropped() {
    let cm = any_cm();
    let (t, c) = words(&cm);
    kani::assert(cm.is_dropped() == ((t & 0x3fff) == 0x3fff), "CounterMarker::is_dropped::decode");
    cm.set_dropped(true);
    kani::assert(cm.is_dropped(), "CounterMarker::set_dropped::post::is_dropped");
    kani::assert(cm.tracing_counter.get() & 0xc000 == t & 0xc000, "CounterMarker::set_dropped::frame::mark_bits");
    kani::assert(cm.counter.get() == c, "CounterMarker::set_dropped::frame::counter_word");
    cm.set_dropped(false);
    kani::assert(!cm.is_dropped() && cm.tracing_counter.get() == t & 0xc000, "CounterMarker::set_dropped_false::post");
}

/// Counting never reaches the reserved value and never spills into the flag bits: from any valid
/// word, any sequence of the four +-1 operations keeps validity (one inductive step, all states).
//@ C16 | complete | deciding | feat=full,std
#[kani::proof]
pub(crate) fn cm_validity_inductive() {
    let cm = any_cm();
    kani::assume(rc_valid(&cm) && tc_valid(&cm));
    let (t, c) = words(&cm);
    match kani::any::<u8>() % 4 {
        0 => { let _ = cm.increment_counter(); }
        1 => { let _ = cm.decrement_counter(); }
        2 => { let _ = cm.increment_tracing_counter(); }
        _ => { let _ = cm._decrement_tracing_counter(); }
    }
    kani::assert(rc_valid(&cm) && tc_valid(&cm), "CounterMarker::inv::validity_preserved");
    kani::assert(cm.counter.get() & 0xc000 == c & 0xc000, "CounterMarker::inv::counter_flags_untouched");
    kani::assert(cm.tracing_counter.get() & 0xc000 == t & 0xc000, "CounterMarker::inv::mark_untouched");
    kani::assert(cm.counter() <= 16382 && cm.tracing_counter() <= 16382, "CounterMarker::inv::at_most_MAX");
}
