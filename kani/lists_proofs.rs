// Specs and contract harnesses for src/lists.rs (LinkedList, PossibleCycles, LinkedQueue).
//
// Pre-states: real CcBox allocations (made by the real CcBox::new) whose header words are fully
// symbolic (valid) and that are linked into a list of symbolic length 0..=3 with the operand at a
// symbolic position.  The primitives add/remove/remove_first/poll only ever touch the operand, its
// two neighbours and the list head, so length <= 3 covers every link configuration they can
// distinguish (first / middle / last / only): these are COMPLETE for the primitive.  The
// whole-list operations (mark_self_and_append, Drop, Iter) are BOUNDED by list length <= 3.
use super::*;
use crate::cc::verif_proofs as ccp;
use crate::counter_marker::verif_proofs as cmp;
use crate::verif::probes::Leaf;

pub(crate) type P = NonNull<CcBox<()>>;
pub(crate) const NB: usize = 7;

/// Abstract view of an intrusive list: the sequence of its elements (following `next`), its
/// length, and whether it is well formed (head has no prev, x.next.prev == x, ends within NB).
#[derive(Clone, Copy)]
pub(crate) struct Seq {
    pub e: [Option<P>; NB],
    pub len: usize,
    pub wf: bool,
}

pub(crate) fn seq(first: Option<P>) -> Seq {
    let mut e = [None; NB];
    let mut len = 0usize;
    let mut wf = true;
    let mut cur = first;
    let mut prev: Option<P> = None;
    let mut i = 0;
    while i < NB {
        match cur {
            None => break,
            Some(p) => {
                if ccp::prev_of(p) != prev {
                    wf = false;
                }
                e[i] = Some(p);
                len += 1;
                prev = Some(p);
                cur = ccp::next_of(p);
            }
        }
        i += 1;
    }
    if cur.is_some() {
        wf = false; // longer than NB (or cyclic)
    }
    Seq { e, len, wf }
}

/// queue view: follows `next` only (LinkedQueue does not maintain prev)
pub(crate) fn qseq(first: Option<P>) -> Seq {
    let mut e = [None; NB];
    let mut len = 0usize;
    let mut cur = first;
    let mut i = 0;
    while i < NB {
        match cur {
            None => break,
            Some(p) => {
                e[i] = Some(p);
                len += 1;
                cur = ccp::next_of(p);
            }
        }
        i += 1;
    }
    Seq { e, len, wf: cur.is_none() }
}

pub(crate) fn contains(s: &Seq, p: P) -> bool {
    let mut i = 0;
    let mut r = false;
    while i < NB {
        if s.e[i] == Some(p) {
            r = true;
        }
        i += 1;
    }
    r
}

/// Link `items[..n]` into a doubly linked chain in array order; returns the head.
pub(crate) fn chain(items: &[P], n: usize) -> Option<P> {
    let mut i = 0;
    while i < n {
        let next = if i + 1 < n { Some(items[i + 1]) } else { None };
        let prev = if i > 0 { Some(items[i - 1]) } else { None };
        ccp::set_links(items[i], next, prev);
        i += 1;
    }
    if n > 0 { Some(items[0]) } else { None }
}

pub(crate) fn new_leaf_box(v: u64) -> P {
    ccp::new_box(Leaf(v)).cast()
}

/// Give `p` fully symbolic (valid) header words; returns them.
pub(crate) fn havoc_words(p: P) -> (u16, u16) {
    let t: u16 = kani::any();
    let c: u16 = kani::any();
    kani::assume((c & 0x3fff) != 0x3fff);
    ccp::set_words_of(p, t, c);
    (t, c)
}

pub(crate) fn ll_first(l: &LinkedList) -> Option<P> {
    l.first
}
pub(crate) fn ll_from(first: Option<P>) -> LinkedList {
    LinkedList { first }
}
pub(crate) fn pc_set(pc: &PossibleCycles, first: Option<P>, size: usize) {
    pc.first.set(first);
    pc.size.set(size);
}
pub(crate) fn pc_first(pc: &PossibleCycles) -> Option<P> {
    pc.first.get()
}
pub(crate) fn pc_size(pc: &PossibleCycles) -> usize {
    pc.size.get()
}
pub(crate) fn q_from(first: Option<P>, last: Option<P>) -> LinkedQueue {
    LinkedQueue { first, last }
}
pub(crate) fn q_first(q: &LinkedQueue) -> Option<P> {
    q.first
}
pub(crate) fn q_last(q: &LinkedQueue) -> Option<P> {
    q.last
}

fn three() -> [P; 3] {
    [new_leaf_box(0), new_leaf_box(1), new_leaf_box(2)]
}

fn any_len(max: usize) -> usize {
    let n: usize = kani::any();
    kani::assume(n <= max);
    n
}

// ------------------------------------------------------------------------------------------------
// LinkedList
// ------------------------------------------------------------------------------------------------
//@ C01 C11 | complete | deciding | feat=full,std | fn=LinkedList::add,LinkedList::new,LinkedList::first,LinkedList::is_empty
#[kani::proof]
#[kani::unwind(9)]
pub(crate) fn ll_add() {
    let it = three();
    let x = new_leaf_box(9);
    let n = any_len(3);
    let w = [havoc_words(it[0]), havoc_words(it[1]), havoc_words(it[2])];
    let wx = havoc_words(x);
    let empty = LinkedList::new();
    kani::assert(empty.first().is_none() && empty.is_empty(), "LinkedList::new::post::empty");
    core::mem::forget(empty);
    let mut l = ll_from(chain(&it, n));
    let old = seq(l.first);
    l.add(x);
    let s = seq(l.first);
    kani::assert(s.wf, "LinkedList::add::post::well_formed");
    kani::assert(s.len == n + 1 && s.e[0] == Some(x), "LinkedList::add::post::operand_is_head");
    kani::assert(l.first() == Some(x) && !l.is_empty(), "LinkedList::first::post::head");
    kani::assert(s.e[1] == old.e[0] && s.e[2] == old.e[1] && s.e[3] == old.e[2], "LinkedList::add::post::old_sequence_follows");
    kani::assert(ccp::words_of(x) == wx && ccp::words_of(it[0]) == w[0] && ccp::words_of(it[1]) == w[1] && ccp::words_of(it[2]) == w[2],
        "LinkedList::add::frame::header_words");
    core::mem::forget(l);
}

//@ C01 C11 | complete | deciding | feat=full,std | fn=LinkedList::remove
#[kani::proof]
#[kani::unwind(9)]
pub(crate) fn ll_remove() {
    let it = three();
    let n = any_len(3);
    kani::assume(n >= 1);
    let p: usize = kani::any();
    kani::assume(p < n);
    let w = [havoc_words(it[0]), havoc_words(it[1]), havoc_words(it[2])];
    let mut l = ll_from(chain(&it, n));
    let x = it[p];
    l.remove(x);
    let s = seq(l.first);
    kani::assert(s.wf && s.len == n - 1, "LinkedList::remove::post::well_formed_len_minus_one");
    kani::assert(!contains(&s, x), "LinkedList::remove::post::operand_absent");
    kani::assert(ccp::next_of(x).is_none() && ccp::prev_of(x).is_none(), "LinkedList::remove::post::operand_unlinked");
    // the remaining elements keep their relative order
    let mut k = 0;
    let mut i = 0;
    while i < 3 {
        if i < n && i != p {
            kani::assert(s.e[k] == Some(it[i]), "LinkedList::remove::post::others_keep_order");
            k += 1;
        }
        i += 1;
    }
    kani::assert(ccp::words_of(it[0]) == w[0] && ccp::words_of(it[1]) == w[1] && ccp::words_of(it[2]) == w[2],
        "LinkedList::remove::frame::header_words");
    core::mem::forget(l);
}

//@ C01 C11 | complete | deciding | feat=full,std | fn=LinkedList::remove_first
#[kani::proof]
#[kani::unwind(9)]
pub(crate) fn ll_remove_first() {
    let it = three();
    let n = any_len(3);
    let w = [havoc_words(it[0]), havoc_words(it[1]), havoc_words(it[2])];
    let mut l = ll_from(chain(&it, n));
    let r = l.remove_first();
    let s = seq(l.first);
    if n == 0 {
        kani::assert(r.is_none() && s.len == 0, "LinkedList::remove_first::post::none_on_empty");
    } else {
        kani::assert(r == Some(it[0]), "LinkedList::remove_first::post::returns_head");
        kani::assert(s.wf && s.len == n - 1 && (n < 2 || s.e[0] == Some(it[1])) && (n < 3 || s.e[1] == Some(it[2])),
            "LinkedList::remove_first::post::tail_remains");
        kani::assert(ccp::next_of(it[0]).is_none() && ccp::prev_of(it[0]).is_none(), "LinkedList::remove_first::post::removed_unlinked");
        let (t, c) = ccp::words_of(it[0]);
        kani::assert(t == (w[0].0 & 0x3fff) && c == w[0].1, "LinkedList::remove_first::post::removed_non_marked_counters_kept");
    }
    kani::assert(ccp::words_of(it[1]) == w[1] && ccp::words_of(it[2]) == w[2], "LinkedList::remove_first::frame::other_headers");
    core::mem::forget(l);
}

/// Drop for LinkedList: every member unlinked and NonMarked, counters kept (bounded: length <= 3).
//@ C07 C01 | bounded: list length <= 3 | deciding | feat=full,std | fn=LinkedList::drop,LinkedList::iter
#[kani::proof]
#[kani::unwind(9)]
pub(crate) fn ll_drop_and_iter() {
    let it = three();
    let n = any_len(3);
    let w = [havoc_words(it[0]), havoc_words(it[1]), havoc_words(it[2])];
    let l = ll_from(chain(&it, n));
    // Iter yields exactly the sequence, in order
    let mut k = 0;
    for e in l.iter() {
        kani::assert(k < n && e == it[k], "LinkedList::iter::post::yields_sequence_in_order");
        k += 1;
    }
    kani::assert(k == n, "LinkedList::iter::post::yields_every_element");
    drop(l);
    let mut i = 0;
    while i < 3 {
        if i < n {
            kani::assert(ccp::next_of(it[i]).is_none() && ccp::prev_of(it[i]).is_none(), "LinkedList::drop::post::members_unlinked");
            let (t, c) = ccp::words_of(it[i]);
            kani::assert(t == (w[i].0 & 0x3fff) && c == w[i].1, "LinkedList::drop::post::members_non_marked_counters_kept");
        } else {
            kani::assert(ccp::words_of(it[i]) == w[i], "LinkedList::drop::frame::non_members");
        }
        i += 1;
    }
}

// ------------------------------------------------------------------------------------------------
// PossibleCycles
// ------------------------------------------------------------------------------------------------
//@ C11 C01 | complete | deciding | feat=full,std | fn=PossibleCycles::add,PossibleCycles::new,PossibleCycles::size,PossibleCycles::first,PossibleCycles::is_empty
#[kani::proof]
#[kani::unwind(9)]
pub(crate) fn pc_add() {
    let it = three();
    let x = new_leaf_box(9);
    let n = any_len(3);
    let w = [havoc_words(it[0]), havoc_words(it[1]), havoc_words(it[2])];
    let wx = havoc_words(x);
    let pc = PossibleCycles::new();
    kani::assert(pc.size() == 0 && pc.first().is_none() && pc.is_empty(), "PossibleCycles::new::post::empty");
    pc_set(&pc, chain(&it, n), n);
    let old = seq(pc_first(&pc));
    pc.add(x);
    let s = seq(pc_first(&pc));
    kani::assert(s.wf && s.len == n + 1 && s.e[0] == Some(x), "PossibleCycles::add::post::operand_is_head");
    kani::assert(s.e[1] == old.e[0] && s.e[2] == old.e[1] && s.e[3] == old.e[2], "PossibleCycles::add::post::old_sequence_follows");
    kani::assert(pc.size() == n + 1, "PossibleCycles::add::post::size_plus_one");
    kani::assert(pc.first() == Some(x) && !pc.is_empty(), "PossibleCycles::first::post::head");
    kani::assert(ccp::words_of(x) == wx && ccp::words_of(it[0]) == w[0] && ccp::words_of(it[1]) == w[1] && ccp::words_of(it[2]) == w[2],
        "PossibleCycles::add::frame::header_words");
    core::mem::forget(pc);
}

//@ C11 C01 | complete | deciding | feat=full,std | fn=PossibleCycles::remove
#[kani::proof]
#[kani::unwind(9)]
pub(crate) fn pc_remove() {
    let it = three();
    let n = any_len(3);
    kani::assume(n >= 1);
    let p: usize = kani::any();
    kani::assume(p < n);
    let w = [havoc_words(it[0]), havoc_words(it[1]), havoc_words(it[2])];
    let pc = PossibleCycles::new();
    pc_set(&pc, chain(&it, n), n);
    let x = it[p];
    pc.remove(x);
    let s = seq(pc_first(&pc));
    kani::assert(s.wf && s.len == n - 1, "PossibleCycles::remove::post::well_formed_len_minus_one");
    kani::assert(pc.size() == n - 1, "PossibleCycles::remove::post::size_minus_one");
    kani::assert(!contains(&s, x), "PossibleCycles::remove::post::operand_absent");
    kani::assert(ccp::next_of(x).is_none() && ccp::prev_of(x).is_none(), "PossibleCycles::remove::post::operand_unlinked");
    let mut k = 0;
    let mut i = 0;
    while i < 3 {
        if i < n && i != p {
            kani::assert(s.e[k] == Some(it[i]), "PossibleCycles::remove::post::others_keep_order");
            k += 1;
        }
        i += 1;
    }
    kani::assert(ccp::words_of(it[0]) == w[0] && ccp::words_of(it[1]) == w[1] && ccp::words_of(it[2]) == w[2],
        "PossibleCycles::remove::frame::header_words");
    core::mem::forget(pc);
}

//@ C11 C01 | complete | deciding | feat=full,std | fn=PossibleCycles::remove_first
#[kani::proof]
#[kani::unwind(9)]
pub(crate) fn pc_remove_first() {
    let it = three();
    let n = any_len(3);
    let w = [havoc_words(it[0]), havoc_words(it[1]), havoc_words(it[2])];
    let pc = PossibleCycles::new();
    pc_set(&pc, chain(&it, n), n);
    let r = pc.remove_first();
    let s = seq(pc_first(&pc));
    if n == 0 {
        kani::assert(r.is_none() && s.len == 0 && pc.size() == 0, "PossibleCycles::remove_first::post::none_on_empty");
    } else {
        kani::assert(r == Some(it[0]), "PossibleCycles::remove_first::post::returns_head");
        kani::assert(pc.size() == n - 1, "PossibleCycles::remove_first::post::size_minus_one");
        kani::assert(s.wf && s.len == n - 1 && (n < 2 || s.e[0] == Some(it[1])) && (n < 3 || s.e[1] == Some(it[2])),
            "PossibleCycles::remove_first::post::tail_remains");
        kani::assert(ccp::next_of(it[0]).is_none() && ccp::prev_of(it[0]).is_none(), "PossibleCycles::remove_first::post::removed_unlinked");
        let (t, c) = ccp::words_of(it[0]);
        kani::assert(t == (w[0].0 & 0x3fff) && c == w[0].1, "PossibleCycles::remove_first::post::removed_non_marked_counters_kept");
    }
    kani::assert(ccp::words_of(it[1]) == w[1] && ccp::words_of(it[2]) == w[2], "PossibleCycles::remove_first::frame::other_headers");
    core::mem::forget(pc);
}

/// swap_list: heads exchanged, size replaced by the given size, no header touched.
//@ C11 C06 | complete | deciding | feat=full,fin | fn=PossibleCycles::swap_list
#[cfg(feature = "finalization")]
#[kani::proof]
#[kani::unwind(9)]
pub(crate) fn pc_swap_list() {
    let a = three();
    let b = three();
    let na = any_len(3);
    let nb = any_len(3);
    let pc = PossibleCycles::new();
    pc_set(&pc, chain(&a, na), na);
    let mut l = ll_from(chain(&b, nb));
    let (fa, fb) = (pc_first(&pc), l.first);
    unsafe { pc.swap_list(&mut l, nb) };
    kani::assert(pc_first(&pc) == fb && l.first == fa, "PossibleCycles::swap_list::post::heads_exchanged");
    kani::assert(pc.size() == nb, "PossibleCycles::swap_list::post::size_is_given_size");
    let (sa, sb) = (seq(l.first), seq(pc_first(&pc)));
    kani::assert(sa.wf && sb.wf && sa.len == na && sb.len == nb, "PossibleCycles::swap_list::frame::links_untouched");
    core::mem::forget(l);
    core::mem::forget(pc);
}

/// mark_self_and_append: every former member of self gets tracing counter 0 and the given mark,
/// the appended list follows in order, size = sum (bounded: both lists of length <= 3).
//@ C06 C01 C11 | bounded: both lists of length <= 3 | deciding | feat=full,fin | fn=PossibleCycles::mark_self_and_append
#[cfg(feature = "finalization")]
#[kani::proof]
#[kani::unwind(9)]
pub(crate) fn pc_mark_self_and_append() {
    let a = three();
    let b = three();
    let na = any_len(3);
    let nb = any_len(3);
    let wa = [havoc_words(a[0]), havoc_words(a[1]), havoc_words(a[2])];
    let wb = [havoc_words(b[0]), havoc_words(b[1]), havoc_words(b[2])];
    let mut i = 0;
    while i < 3 {
        // tracing counters of the members of self are valid (not the reserved "dropped" value)
        kani::assume((wa[i].0 & 0x3fff) != 0x3fff);
        i += 1;
    }
    let pc = PossibleCycles::new();
    pc_set(&pc, chain(&a, na), na);
    let l = ll_from(chain(&b, nb));
    unsafe { pc.mark_self_and_append(Mark::PossibleCycles, l, nb) };
    let s = seq(pc_first(&pc));
    kani::assert(s.wf && s.len == na + nb, "PossibleCycles::mark_self_and_append::post::well_formed_concatenation");
    kani::assert(pc.size() == na + nb, "PossibleCycles::mark_self_and_append::post::size_is_sum");
    let mut i = 0;
    while i < 3 {
        if i < na {
            kani::assert(s.e[i] == Some(a[i]), "PossibleCycles::mark_self_and_append::post::self_members_first_in_order");
            let (t, c) = ccp::words_of(a[i]);
            kani::assert((t & 0x3fff) == 0, "PossibleCycles::mark_self_and_append::post::self_members_tracing_zero");
            kani::assert((t >> 14) == 1, "PossibleCycles::mark_self_and_append::post::self_members_marked");
            kani::assert(c == wa[i].1, "PossibleCycles::mark_self_and_append::frame::counter_word");
        } else {
            kani::assert(ccp::words_of(a[i]) == wa[i], "PossibleCycles::mark_self_and_append::frame::non_members");
        }
        if i < nb {
            kani::assert(s.e[na + i] == Some(b[i]), "PossibleCycles::mark_self_and_append::post::appended_follow_in_order");
        }
        kani::assert(ccp::words_of(b[i]) == wb[i], "PossibleCycles::mark_self_and_append::frame::appended_headers");
        i += 1;
    }
    core::mem::forget(pc);
}

/// Drop for PossibleCycles (thread teardown): every member unlinked and NonMarked.
//@ C07 | bounded: list length <= 3 | helper | feat=full,std | fn=PossibleCycles::drop
#[kani::proof]
#[kani::unwind(9)]
pub(crate) fn pc_drop() {
    let it = three();
    let n = any_len(3);
    let w = [havoc_words(it[0]), havoc_words(it[1]), havoc_words(it[2])];
    let pc = PossibleCycles::new();
    pc_set(&pc, chain(&it, n), n);
    drop(pc);
    let mut i = 0;
    while i < 3 {
        if i < n {
            kani::assert(ccp::next_of(it[i]).is_none() && ccp::prev_of(it[i]).is_none(), "PossibleCycles::drop::post::members_unlinked");
            kani::assert(ccp::words_of(it[i]) == (w[i].0 & 0x3fff, w[i].1), "PossibleCycles::drop::post::members_non_marked_counters_kept");
        }
        i += 1;
    }
}

// ------------------------------------------------------------------------------------------------
// LinkedQueue
// ------------------------------------------------------------------------------------------------
//@ C01 | complete | deciding | feat=full,std | fn=LinkedQueue::add,LinkedQueue::new,LinkedQueue::peek,LinkedQueue::is_empty
#[kani::proof]
#[kani::unwind(9)]
pub(crate) fn q_add() {
    let it = three();
    let x = new_leaf_box(9);
    let n = any_len(3);
    let w = [havoc_words(it[0]), havoc_words(it[1]), havoc_words(it[2])];
    let wx = havoc_words(x);
    let e = LinkedQueue::new();
    kani::assert(e.is_empty() && e.peek().is_none(), "LinkedQueue::new::post::empty");
    core::mem::forget(e);
    let first = chain(&it, n);
    let last = if n > 0 { Some(it[n - 1]) } else { None };
    let mut q = q_from(first, last);
    q.add(x);
    let s = qseq(q.first);
    kani::assert(s.wf && s.len == n + 1, "LinkedQueue::add::post::len_plus_one");
    kani::assert(s.e[n] == Some(x) && q.last == Some(x), "LinkedQueue::add::post::operand_is_last");
    kani::assert((n < 1 || s.e[0] == Some(it[0])) && (n < 2 || s.e[1] == Some(it[1])) && (n < 3 || s.e[2] == Some(it[2])),
        "LinkedQueue::add::post::old_sequence_precedes");
    kani::assert(q.peek() == s.e[0] && !q.is_empty(), "LinkedQueue::peek::post::head");
    kani::assert(ccp::words_of(x) == wx && ccp::words_of(it[0]) == w[0] && ccp::words_of(it[1]) == w[1] && ccp::words_of(it[2]) == w[2],
        "LinkedQueue::add::frame::header_words");
    core::mem::forget(q);
}

//@ C01 | complete | deciding | feat=full,std | fn=LinkedQueue::poll
#[kani::proof]
#[kani::unwind(9)]
pub(crate) fn q_poll() {
    let it = three();
    let n = any_len(3);
    let w = [havoc_words(it[0]), havoc_words(it[1]), havoc_words(it[2])];
    // a queue only maintains `next`
    let first = chain(&it, n);
    let mut i = 0;
    while i < 3 {
        ccp::set_links(it[i], ccp::next_of(it[i]), None);
        i += 1;
    }
    let last = if n > 0 { Some(it[n - 1]) } else { None };
    let mut q = q_from(first, last);
    let r = q.poll();
    let s = qseq(q.first);
    if n == 0 {
        kani::assert(r.is_none() && q.first.is_none() && q.last.is_none(), "LinkedQueue::poll::post::none_on_empty");
    } else {
        kani::assert(r == Some(it[0]), "LinkedQueue::poll::post::fifo_head");
        kani::assert(s.wf && s.len == n - 1 && (n < 2 || s.e[0] == Some(it[1])) && (n < 3 || s.e[1] == Some(it[2])),
            "LinkedQueue::poll::post::tail_remains");
        kani::assert(if n == 1 { q.last.is_none() && q.first.is_none() } else { q.last == Some(it[n - 1]) }, "LinkedQueue::poll::post::last_consistent");
        kani::assert(ccp::next_of(it[0]).is_none() && ccp::prev_of(it[0]).is_none(), "LinkedQueue::poll::post::removed_unlinked");
        kani::assert(ccp::words_of(it[0]) == (w[0].0 & 0x3fff, w[0].1), "LinkedQueue::poll::post::removed_non_marked_counters_kept");
    }
    kani::assert(ccp::words_of(it[1]) == w[1] && ccp::words_of(it[2]) == w[2], "LinkedQueue::poll::frame::other_headers");
    core::mem::forget(q);
}

//@ C07 | bounded: queue length <= 3 | deciding | feat=full,std | fn=LinkedQueue::drop
#[kani::proof]
#[kani::unwind(9)]
pub(crate) fn q_drop() {
    let it = three();
    let n = any_len(3);
    let w = [havoc_words(it[0]), havoc_words(it[1]), havoc_words(it[2])];
    let first = chain(&it, n);
    let mut i = 0;
    while i < 3 {
        ccp::set_links(it[i], ccp::next_of(it[i]), None);
        i += 1;
    }
    let last = if n > 0 { Some(it[n - 1]) } else { None };
    let q = q_from(first, last);
    drop(q);
    let mut i = 0;
    while i < 3 {
        if i < n {
            kani::assert(ccp::next_of(it[i]).is_none(), "LinkedQueue::drop::post::members_unlinked");
            kani::assert(ccp::words_of(it[i]) == (w[i].0 & 0x3fff, w[i].1), "LinkedQueue::drop::post::members_non_marked_counters_kept");
        }
        i += 1;
    }
}
