// /verif/kani/root.rs — compiled into rust-cc only under `cfg(kani)` as `crate::verif`
// (hook H1 in /repo/src/lib.rs).  Contains:
//   * the thread-local shim that lets kani-compiler 0.68 compile POSSIBLE_CYCLES,
//   * verifier-only ghost state (life-cycle automaton, callback log, emulated unwinding flag),
//   * probe payload types used by the contract harnesses,
//   * the harnesses that need crate-root privacy (collect, __collect, trace_counting, ...).

// ------------------------------------------------------------------------------------------------
// TLS shim: same surface as std::thread::LocalKey for what the crate uses (`with`, `try_with`),
// but a plain `#[thread_local] static` without lazy initialisation or destructor registration.
// Faithful for one thread, which is all Kani models.
// ------------------------------------------------------------------------------------------------
pub(crate) struct KaniLocalKey<T: 'static> {
    value: T,
}

#[derive(Clone, Copy, Debug)]
pub(crate) struct KaniAccessError;

impl<T> KaniLocalKey<T> {
    pub(crate) const fn new(value: T) -> Self {
        KaniLocalKey { value }
    }

    #[inline]
    pub(crate) fn with<F, R>(&self, f: F) -> R
    where
        F: FnOnce(&T) -> R,
    {
        f(&self.value)
    }

    #[inline]
    pub(crate) fn try_with<F, R>(&self, f: F) -> Result<R, KaniAccessError>
    where
        F: FnOnce(&T) -> R,
    {
        Ok(f(&self.value))
    }
}

macro_rules! rust_cc_thread_local {
    () => {};
    ($(#[$attr:meta])* $vis:vis static $name:ident: $t:ty = const { $init:expr }; $($rest:tt)*) => (
        $crate::verif::rust_cc_thread_local!($(#[$attr])* $vis static $name: $t = $init);
        $crate::verif::rust_cc_thread_local!($($rest)*);
    );
    ($(#[$attr:meta])* $vis:vis static $name:ident: $t:ty = const { $init:expr }) => (
        $crate::verif::rust_cc_thread_local!($(#[$attr])* $vis static $name: $t = $init);
    );
    ($(#[$attr:meta])* $vis:vis static $name:ident: $t:ty = $init:expr; $($rest:tt)*) => (
        $crate::verif::rust_cc_thread_local!($(#[$attr])* $vis static $name: $t = $init);
        $crate::verif::rust_cc_thread_local!($($rest)*);
    );
    ($(#[$attr:meta])* $vis:vis static $name:ident: $t:ty = $init:expr) => (
        #[thread_local]
        $(#[$attr])* $vis static $name: $crate::verif::KaniLocalKey<$t> = $crate::verif::KaniLocalKey::new($init);
    );
}
pub(crate) use rust_cc_thread_local;

pub(crate) mod ghost { include!(concat!(env!("VERIF_KANI_DIR"), "/ghost.rs")); }
pub(crate) mod probes { include!(concat!(env!("VERIF_KANI_DIR"), "/probes.rs")); }
pub(crate) use ghost::{limit_panic, unwind_mark, unwinding, unwound};
pub(crate) mod l2 { include!(concat!(env!("VERIF_KANI_DIR"), "/l2.rs")); }
pub(crate) mod lib_proofs { include!(concat!(env!("VERIF_KANI_DIR"), "/lib_proofs.rs")); }

/// Pipeline canary: a deliberately false obligation that MUST be reported as FAILURE on every run;
/// if it is not, the driver refuses to report success (vacuity guard, DESIGN 2.3 step 4).
//@ canary
#[kani::proof]
pub(crate) fn canary_must_fail() {
    let x: u8 = kani::any();
    kani::assert(x != 7, "verif::canary::must_fail");
}

// Generated code (driver-enumerated L2 instances; Kani playback unit tests for native replay).
// The driver writes <scratch>/gen.rs on every run and exports VERIF_GEN_DIR=<scratch>.
pub(crate) mod gen {
    include!(concat!(env!("VERIF_GEN_DIR"), "/gen.rs"));
}
