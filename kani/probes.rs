// Probe payload types shared by the harnesses (cfg(kani) only).
use crate::{Cc, Context, Finalize, Trace};

/// Leaf payload: no Cc inside, records nothing.
pub(crate) struct Leaf(pub u64);
unsafe impl Trace for Leaf {
    fn trace(&self, _: &mut Context<'_>) {}
}
impl Finalize for Leaf {}
