// Probe payload types shared by the harnesses (cfg(kani) only).
//
// `Node` is the general graph node: two TRACED slots, one UNTRACED slot (an owning Cc field the
// owner does not report: must be treated as an external reference), an id and a canary value.
// Its Trace/Finalize/Drop callbacks keep the ghost life-cycle automaton of DESIGN section 3 and can
// perform one driver-chosen action (resurrect, upgrade, collect, allocate, emulated panic).
use core::cell::RefCell;

use crate::verif::ghost::{self, g, Act, MAX_OBJ};
use crate::{Cc, Context, Finalize, Trace};

/// Leaf payload: no Cc inside, records nothing.
pub(crate) struct Leaf(pub u64);
unsafe impl Trace for Leaf {
    fn trace(&self, _: &mut Context<'_>) {}
}
impl Finalize for Leaf {}

/// Zero-sized payload.
pub(crate) struct Zst;
unsafe impl Trace for Zst {
    fn trace(&self, _: &mut Context<'_>) {}
}
impl Finalize for Zst {}

/// Over-aligned, larger payload (layout grid representative).
#[repr(align(64))]
pub(crate) struct Big(pub [u8; 96]);
unsafe impl Trace for Big {
    fn trace(&self, _: &mut Context<'_>) {}
}
impl Finalize for Big {}

pub(crate) const CANARY: u64 = 0x5a5a_0000_a5a5_0000;

pub(crate) struct Node {
    pub id: u8,
    pub s0: RefCell<Option<Cc<Node>>>,
    pub s1: RefCell<Option<Cc<Node>>>,
    /// owning but NOT traced
    pub hidden: RefCell<Option<Cc<Node>>>,
    pub v: u64,
}

impl Node {
    pub(crate) fn new(id: u8) -> Node {
        Node { id, s0: RefCell::new(None), s1: RefCell::new(None), hidden: RefCell::new(None), v: CANARY + id as u64 }
    }
    pub(crate) fn intact(&self) -> bool {
        self.v == CANARY + self.id as u64
    }
}

/// Handles held by "the program" (roots), and places where finalizers store resurrected pointers.
pub(crate) static mut HELD: [Option<Cc<Node>>; MAX_OBJ] = [None, None, None, None];
pub(crate) static mut STASH: [Option<Cc<Node>>; MAX_OBJ] = [None, None, None, None];
#[cfg(feature = "weak-ptrs")]
pub(crate) static mut WEAKS: [Option<crate::weak::Weak<Node>>; MAX_OBJ] = [None, None, None, None];

fn set_slot(cell: &RefCell<Option<Cc<Node>>>, v: Option<Cc<Node>>) -> Option<Cc<Node>> {
    match cell.try_borrow_mut() {
        Ok(mut b) => core::mem::replace(&mut *b, v),
        Err(_) => {
            kani::assume(false);
            None
        }
    }
}
pub(crate) fn put(cell: &RefCell<Option<Cc<Node>>>, v: Option<Cc<Node>>) {
    let old = set_slot(cell, v);
    drop(old);
}
pub(crate) fn peek_id(cell: &RefCell<Option<Cc<Node>>>) -> Option<u8> {
    match cell.try_borrow() {
        Ok(b) => match &*b {
            Some(c) => Some(crate::cc::verif_proofs::peek_node(c).id),
            None => None,
        },
        Err(_) => {
            kani::assume(false);
            None
        }
    }
}

/// bit0 collecting, bit1 finalizing, bit2 dropping
pub(crate) fn flags_now() -> u8 {
    let sn = crate::state::state(|s| crate::state::verif_proofs::snap(s));
    (sn.collecting as u8) | ((sn.finalizing as u8) << 1) | ((sn.dropping as u8) << 2)
}

fn do_action(this: &Node, act: Act, target: u8) {
    if !g().actions_on {
        return;
    }
    let id = this.id as usize;
    match act {
        Act::Nothing | Act::Fault => {}
        Act::ResurrectSelf => unsafe {
            // a new Cc to `this`, made by the real Cc::clone from the raw box address
            if let Some(c) = crate::cc::verif_proofs::clone_from_registry(id) {
                STASH[id] = Some(c);
            }
        },
        Act::ResurrectNeighbour => unsafe {
            // clone whatever traced slot 0 points to into the stash
            let c = match this.s0.try_borrow() {
                Ok(b) => b.as_ref().map(|c| c.clone()),
                Err(_) => None,
            };
            if let Some(c) = c {
                STASH[id] = Some(c);
            }
        },
        Act::UpgradeStore => {
            #[cfg(feature = "weak-ptrs")]
            unsafe {
                if let Some(w) = &WEAKS[target as usize] {
                    let up = w.upgrade();
                    g().upgrade_result[id] = if up.is_some() { 2 } else { 1 };
                    if let Some(c) = up {
                        STASH[id] = Some(c);
                    }
                }
            }
        }
        Act::UpgradeProbe => {
            #[cfg(feature = "weak-ptrs")]
            unsafe {
                if let Some(w) = &WEAKS[target as usize] {
                    let up = w.upgrade();
                    g().upgrade_result[id] = if up.is_some() { 2 } else { 1 };
                    if let Some(c) = &up {
                        // C08: an upgrade that succeeds gives access to a live, undropped value
                        let n = crate::cc::verif_proofs::peek_node(c);
                        if g().drop_calls[n.id as usize] != 0 || !n.intact() {
                            g().upgrade_gave_dropped += 1;
                        }
                    }
                    drop(up);
                }
            }
        }
        Act::Collect => {
            g().collect_calls_in_cb += 1;
            crate::collect_cycles();
        }
        Act::Alloc => {
            let c = Cc::new(Leaf(7));
            #[cfg(feature = "finalization")]
            if crate::state::state(|s| s.is_finalizing()) && !c.already_finalized() {
                g().new_in_finalizer_not_marked_finalized += 1;
            }
            drop(c);
        }
        Act::ClearSlot0 => {
            put(&this.s0, None);
        }
        Act::AllocAuto => {
            #[cfg(feature = "auto-collect")]
            let _ = crate::config::config(|c| c.set_auto_collect(true));
            let e0 = crate::state::state(|s| crate::state::verif_proofs::snap(s)).execs;
            let c = Cc::new(Leaf(9));
            let e1 = crate::state::state(|s| crate::state::verif_proofs::snap(s)).execs;
            g().collect_calls_in_cb += (e1 - e0) as u16;
            #[cfg(feature = "auto-collect")]
            let _ = crate::config::config(|c| c.set_auto_collect(false));
            drop(c);
        }
        Act::ReleaseHeld => unsafe {
            let h = HELD[target as usize % MAX_OBJ].take();
            drop(h);
        },
        Act::ResurrectIntoSelf => {
            if let Some(c) = crate::cc::verif_proofs::clone_from_registry(id) {
                put(&this.s1, Some(c));
            }
        }
    }
}

unsafe impl Trace for Node {
    fn trace(&self, ctx: &mut Context<'_>) {
        let gs = g();
        let id = (self.id as usize) % MAX_OBJ;
        gs.n_trace += 1;
        gs.trace_calls[id] += 1;
        if !matches!(crate::state::is_tracing(), Ok(true)) {
            gs.trace_not_tracing += 1;
        }
        if gs.drop_calls[id] != 0 {
            gs.trace_after_drop += 1;
        }
        if gs.fault_kind == 1 && gs.n_trace == gs.fault_k {
            // emulated `panic!` at the start of the k-th trace call (A-UNWIND)
            ghost::start_panic();
            return;
        }
        self.s0.trace(ctx);
        self.s1.trace(ctx);
        // `hidden` is deliberately not traced
        if gs.fault_kind == 4 && gs.n_trace == gs.fault_k {
            // emulated `panic!` at the end of the k-th trace call
            ghost::start_panic();
        }
    }
}

impl Finalize for Node {
    fn finalize(&self) {
        let gs = g();
        let id = (self.id as usize) % MAX_OBJ;
        gs.n_fin += 1;
        gs.seq += 1;
        gs.finalize_calls[id] += 1;
        if gs.first_fin_seq[id] == 0 {
            gs.first_fin_seq[id] = gs.seq;
        }
        if matches!(crate::state::is_tracing(), Ok(true)) {
            gs.fin_while_tracing += 1;
        }
        #[cfg(not(feature = "finalization"))]
        {
            gs.fin_without_feature += 1;
        }
        if gs.drop_calls[id] != 0 {
            gs.fin_after_drop += 1;
        }
        if !self.intact() {
            gs.canary_broken += 1;
        }
        gs.fin_flags = flags_now();
        if let Some(p) = crate::cc::verif_proofs::reg_opt(id) {
            let (_, cw) = crate::cc::verif_proofs::words_of(p);
            if cw & 0x4000 == 0 {
                gs.fin_bit_unset_in_cb += 1;
            }
            gs.fin_seen_count[id] = cw & 0x3fff;
        }
        // C05: everything reachable through my slots is still undropped
        for cell in [&self.s0, &self.s1, &self.hidden] {
            if let Some(n) = peek_id(cell) {
                if gs.drop_calls[n as usize] != 0 {
                    gs.fin_saw_dropped_neighbour += 1;
                }
            }
        }
        if gs.fault_kind == 2 && gs.n_fin == gs.fault_k {
            ghost::start_panic();
            return;
        }
        do_action(self, gs.fin_act[id], gs.act_target[id]);
    }
}

impl Drop for Node {
    fn drop(&mut self) {
        let gs = g();
        let id = (self.id as usize) % MAX_OBJ;
        gs.n_drop += 1;
        gs.seq += 1;
        gs.drop_calls[id] += 1;
        if gs.drop_calls[id] > 1 {
            gs.double_drop += 1;
        }
        if gs.first_drop_seq[id] == 0 {
            gs.first_drop_seq[id] = gs.seq;
        }
        if matches!(crate::state::is_tracing(), Ok(true)) {
            gs.drop_while_tracing += 1;
        }
        if !self.intact() {
            gs.canary_broken += 1;
        }
        gs.drop_flags = flags_now();
        if let Some(p) = crate::cc::verif_proofs::reg_opt(id) {
            let (tw, cw) = crate::cc::verif_proofs::words_of(p);
            #[cfg(feature = "weak-ptrs")]
            if tw & 0x3fff != 0x3fff {
                gs.drop_not_marked_dropped += 1;
            }
            gs.drop_seen_count[id] = cw & 0x3fff;
        }
        if gs.fault_kind == 3 && gs.n_drop == gs.fault_k {
            ghost::start_panic();
            return;
        }
        do_action(self, gs.drop_act[id], gs.act_target[id]);
    }
}
