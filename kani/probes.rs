// Probe payload types shared by the harnesses (cfg(kani) only).
use crate::{Cc, Context, Finalize, Trace};

/// Leaf payload: no Cc inside, records nothing.
pub(crate) struct Leaf(pub u64);
unsafe impl Trace for Leaf {
    fn trace(&self, _: &mut Context<'_>) {}
}
impl Finalize for Leaf {}

/// Zero-sized payload.
pub(crate) struct Zst;
unsafe impl Trace for Zst {
    fn trace(&self, _: &mut Context<'_>) {}
}
impl Finalize for Zst {}

/// Over-aligned, larger payload (layout grid representative).
#[repr(align(64))]
pub(crate) struct Big(pub [u8; 96]);
unsafe impl Trace for Big {
    fn trace(&self, _: &mut Context<'_>) {}
}
impl Finalize for Big {}
