// Specs and contract harnesses for src/weak/weak_counter_marker.rs.
// Full-domain symbolic 16-bit word: complete, loop-free.
use super::*;

pub(crate) fn any_wcm() -> WeakCounterMarker {
    WeakCounterMarker { weak_counter: Cell::new(kani::any()) }
}
pub(crate) fn word(w: &WeakCounterMarker) -> u16 {
    w.weak_counter.get()
}
pub(crate) fn set_word(w: &WeakCounterMarker, v: u16) {
    w.weak_counter.set(v);
}

//@ C16 C09 | complete | deciding | feat=full,finweak | fn=WeakCounterMarker::new
#[kani::proof]
pub(crate) fn wcm_new_and_limits() {
    kani::assert(MAX == 32767, "WeakCounterMarker::MAX::is_32767");
    let a: bool = kani::any();
    let w = WeakCounterMarker::new(a);
    kani::assert(w.counter() == 0, "WeakCounterMarker::new::post::count_zero");
    kani::assert(w.is_accessible() == a, "WeakCounterMarker::new::post::accessible_as_given");
}

//@ C16 C09 | complete | deciding | feat=full,finweak | fn=WeakCounterMarker::increment_counter
#[kani::proof]
pub(crate) fn wcm_increment() {
    let w = any_wcm();
    let w0 = word(&w);
    let r = w.increment_counter();
    if (w0 & 0x7fff) == 32767 {
        kani::assert(r.is_err(), "WeakCounterMarker::increment_counter::post::err_at_32767");
        kani::assert(word(&w) == w0, "WeakCounterMarker::increment_counter::post::err_unchanged");
    } else {
        kani::assert(r.is_ok(), "WeakCounterMarker::increment_counter::post::ok_below_limit");
        kani::assert((word(&w) & 0x7fff) == (w0 & 0x7fff) + 1, "WeakCounterMarker::increment_counter::post::plus_one");
        kani::assert((word(&w) & 0x8000) == (w0 & 0x8000), "WeakCounterMarker::increment_counter::frame::accessible_bit");
    }
}

//@ C16 C09 | complete | deciding | feat=full,finweak | fn=WeakCounterMarker::decrement_counter
#[kani::proof]
pub(crate) fn wcm_decrement() {
    let w = any_wcm();
    let w0 = word(&w);
    let r = w.decrement_counter();
    if (w0 & 0x7fff) == 0 {
        kani::assert(r.is_err(), "WeakCounterMarker::decrement_counter::post::err_at_0");
        kani::assert(word(&w) == w0, "WeakCounterMarker::decrement_counter::post::err_unchanged");
    } else {
        kani::assert(r.is_ok(), "WeakCounterMarker::decrement_counter::post::ok_above_zero");
        kani::assert((word(&w) & 0x7fff) == (w0 & 0x7fff) - 1, "WeakCounterMarker::decrement_counter::post::minus_one");
        kani::assert((word(&w) & 0x8000) == (w0 & 0x8000), "WeakCounterMarker::decrement_counter::frame::accessible_bit");
    }
}

//@ C09 C08 | complete | deciding | feat=full,finweak | fn=WeakCounterMarker::counter,WeakCounterMarker::is_accessible,WeakCounterMarker::set_accessible
#[kani::proof]
pub(crate) fn wcm_accessible() {
    let w = any_wcm();
    let w0 = word(&w);
    kani::assert(w.counter() == w0 & 0x7fff, "WeakCounterMarker::counter::post::masked_field");
    kani::assert(w.is_accessible() == ((w0 & 0x8000) != 0), "WeakCounterMarker::is_accessible::decode");
    kani::assert(word(&w) == w0, "WeakCounterMarker::getters::frame");
    let v: bool = kani::any();
    w.set_accessible(v);
    kani::assert(w.is_accessible() == v, "WeakCounterMarker::set_accessible::post::get_after_set");
    kani::assert(w.counter() == w0 & 0x7fff, "WeakCounterMarker::set_accessible::frame::count");
}
