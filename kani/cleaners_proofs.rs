// placeholder
#![allow(dead_code, unused_imports, unused_variables)]
use super::*;
