// Contract harnesses for src/cleaners/mod.rs (C10).  The slot map code (external crate `slotmap`) is
// executed by CBMC as it is; it is exercised, not specified.  Scenarios are concrete scripts over one
// Cleaner with <= 2 actions (bounded), each action counting its runs in ghost state.
use super::*;
use crate::cc::verif_proofs as ccp;
use crate::state::state;
use crate::state::verif_proofs as sp;
use crate::verif::probes::*;

pub(crate) static mut RUNS: [u8; 4] = [0; 4];
pub(crate) static mut UPGRADE_OK_IN_ACTION: u8 = 0;
fn runs() -> [u8; 4] {
    unsafe { RUNS }
}
/// A-UNION (see cc_proofs::md::normalise_record_ptr): same bytes, widest union member, for the map's box
fn normalise(c: &Cleaner, a: &Cleanable) {
    unsafe {
        if let Some(cc) = (*c.cleaner_map.get()).as_ref() {
            if let Some(m) = crate::weak::verif_proofs::weak_parts(&a.cleaner_map).0 {
                ccp::md::normalise_record_ptr(cc.inner_ptr(), m);
            }
        }
    }
}
fn setup() {
    #[cfg(feature = "auto-collect")]
    let _ = crate::config::config(|c| c.set_auto_collect(false));
}

/// CleaningAction::drop runs the closure iff it is still present, and empties the slot first.
//@ C10 | complete | deciding | feat=full | fn=CleaningAction::drop | timeout=600
#[kani::proof]
#[kani::unwind(9)]
pub(crate) fn cleaning_action_drop_runs_once() {
    let a = CleaningAction(Some(Box::new(|| unsafe { RUNS[0] += 1 })));
    drop(a);
    kani::assert(runs()[0] == 1, "CleaningAction::drop::post::runs_the_action_exactly_once");
    let mut b = CleaningAction(Some(Box::new(|| unsafe { RUNS[1] += 1 })));
    let f = b.0.take();
    drop(b); // already taken: nothing runs
    kani::assert(runs()[1] == 0, "CleaningAction::drop::post::noop_when_already_taken");
    if let Some(f) = f {
        f();
    }
    kani::assert(runs()[1] == 1, "CleaningAction::drop::post::runs_the_action_exactly_once");
}

/// register + drop of the Cleaner: every action not run earlier has run exactly once when the drop returns.
//@ C10 | bounded: one Cleaner, 2 actions, script register/register/drop | deciding | feat=full | fn=Cleaner::register,Cleaner::new,CleaningAction::drop | timeout=900
#[kani::proof]
#[kani::unwind(9)]
pub(crate) fn cleaner_drop_runs_every_pending_action_once() {
    setup();
    let c = Cleaner::new();
    let a0 = c.register(|| unsafe { RUNS[0] += 1 });
    let a1 = c.register(|| unsafe { RUNS[1] += 1 });
    kani::assert(runs()[0] == 0 && runs()[1] == 0, "Cleaner::register::post::does_not_run_the_action");
    drop(c);
    kani::assert(runs()[0] == 1 && runs()[1] == 1, "Cleaner::drop::post::every_pending_action_ran_exactly_once");
    // clean() afterwards is a no-op
    a0.clean();
    a1.clean();
    kani::assert(runs()[0] == 1 && runs()[1] == 1, "Cleanable::clean::post::noop_after_the_cleaner_is_gone");
    drop(a0);
    drop(a1);
    kani::assert(state(|s| sp::snap(s)).bytes == 0, "Cleaner::drop::post::map_released");
}

/// clean() runs its action once, immediately; a second clean() and the Cleaner's drop do not run it again;
/// dropping a Cleanable neither runs nor cancels its action.
//@ C10 | bounded: one Cleaner, 2 actions, script clean/clean/drop-cleanable/drop-cleaner | deciding | feat=full | fn=Cleanable::clean,Cleaner::register | timeout=900
#[kani::proof]
#[kani::unwind(9)]
pub(crate) fn cleanable_clean_runs_once_and_drop_of_cleanable_is_inert() {
    setup();
    let c = Cleaner::new();
    let a0 = c.register(|| unsafe { RUNS[0] += 1 });
    normalise(&c, &a0);
    let a1 = c.register(|| unsafe { RUNS[1] += 1 });
    a0.clean();
    kani::assert(runs()[0] == 1 && runs()[1] == 0, "Cleanable::clean::post::runs_exactly_its_action_once");
    a0.clean();
    kani::assert(runs()[0] == 1 && runs()[1] == 0, "Cleanable::clean::post::second_clean_is_a_noop");
    drop(a1);
    kani::assert(runs()[1] == 0, "Cleanable::drop::post::neither_runs_nor_cancels");
    drop(c);
    kani::assert(runs()[0] == 1 && runs()[1] == 1, "Cleaner::drop::post::every_pending_action_ran_exactly_once");
    drop(a0);
}

/// The Cleaner is owned by an object that is released by reference counting / reclaimed as part of a cycle.
pub(crate) struct Owner {
    pub me: core::cell::RefCell<Option<Cc<Owner>>>,
    pub cleaner: Cleaner,
}
unsafe impl Trace for Owner {
    fn trace(&self, ctx: &mut Context<'_>) {
        self.me.trace(ctx);
        self.cleaner.trace(ctx);
    }
}
impl Finalize for Owner {}

//@ C10 C08 | bounded: one owner, 1-2 actions, released by count and by cycle collection | deciding | feat=full | fn=Cleaner::register,Cleanable::clean,collect_cycles | timeout=1200
#[kani::proof]
#[kani::unwind(12)]
pub(crate) fn cleaner_owner_released_by_count_and_by_cycle() {
    setup();
    // by reference counting
    let o = Cc::new(Owner { me: core::cell::RefCell::new(None), cleaner: Cleaner::new() });
    let w = o.downgrade();
    let wa = w.clone();
    let a0 = o.cleaner.register(move || unsafe {
        RUNS[0] += 1;
        // C08/C10: an action can never reach the object being cleaned
        if wa.upgrade().is_some() {
            UPGRADE_OK_IN_ACTION += 1;
        }
    });
    normalise(&o.cleaner, &a0);
    ccp::md::normalise_record_ptr(o.inner_ptr(), crate::weak::verif_proofs::weak_parts(&w).0.unwrap());
    drop(o);
    kani::assert(runs()[0] == 1, "Cleaner::drop::post::action_ran_once_when_owner_released_by_count");
    kani::assert(unsafe { UPGRADE_OK_IN_ACTION } == 0, "CleaningAction::post::never_reaches_the_cleaned_object");
    a0.clean();
    kani::assert(runs()[0] == 1, "Cleanable::clean::post::noop_after_the_cleaner_is_gone");
    drop(a0);
    drop(w);
    // as part of a collected cycle
    let p = Cc::new(Owner { me: core::cell::RefCell::new(None), cleaner: Cleaner::new() });
    match p.me.try_borrow_mut() {
        Ok(mut b) => *b = Some(p.clone()),
        Err(_) => kani::assume(false),
    }
    let wp = p.downgrade();
    ccp::md::normalise_record_ptr(p.inner_ptr(), crate::weak::verif_proofs::weak_parts(&wp).0.unwrap());
    let a1 = p.cleaner.register(move || unsafe {
        RUNS[1] += 1;
        if wp.upgrade().is_some() {
            UPGRADE_OK_IN_ACTION += 1;
        }
    });
    normalise(&p.cleaner, &a1);
    drop(p);
    kani::assert(runs()[1] == 0, "Cleaner::register::post::does_not_run_the_action");
    crate::collect_cycles();
    crate::collect_cycles();
    kani::assert(runs()[1] == 1, "Cleaner::drop::post::action_ran_once_when_owner_reclaimed_as_cycle");
    kani::assert(unsafe { UPGRADE_OK_IN_ACTION } == 0, "CleaningAction::post::never_reaches_the_cleaned_object");
    a1.clean();
    kani::assert(runs()[1] == 1, "Cleanable::clean::post::noop_after_the_cleaner_is_gone");
    drop(a1);
    kani::assert(state(|s| sp::snap(s)).bytes == 0, "Cleaner::drop::post::map_released");
}

pub(crate) static mut HOLDER: Option<Cc<Owner>> = None;

/// Re-entrancy: the action run by clean() releases the owner (and with it the Cleaner) while clean()
/// is still on the stack.  By the time clean() returns the Cleaner is gone, so every other pending
/// action must have run exactly once, and nothing runs twice.
//@ C10 | bounded: one owner, 2 actions, the first action drops the last Cc to the owner from inside clean() | deciding | feat=full | fn=Cleanable::clean,Cleaner::register,Weak::upgrade,Cc::drop | timeout=1200
#[kani::proof]
#[kani::unwind(12)]
#[allow(static_mut_refs)]
pub(crate) fn cleaner_dropped_from_inside_clean() {
    setup();
    let o = Cc::new(Owner { me: core::cell::RefCell::new(None), cleaner: Cleaner::new() });
    let a0 = o.cleaner.register(|| unsafe {
        RUNS[0] += 1;
        let h = HOLDER.take();
        drop(h); // last Cc to the owner: the owner and its Cleaner go away now
    });
    normalise(&o.cleaner, &a0);
    let a1 = o.cleaner.register(|| unsafe { RUNS[1] += 1 });
    unsafe { HOLDER = Some(o) };
    a0.clean();
    kani::assert(runs()[0] == 1, "Cleanable::clean::post::runs_exactly_its_action_once");
    kani::assert(unsafe { HOLDER.is_none() }, "Cleanable::clean::post::runs_exactly_its_action_once");
    kani::assert(runs()[1] == 1, "Cleaner::drop::post::every_pending_action_ran_exactly_once");
    a1.clean();
    a0.clean();
    kani::assert(runs()[0] == 1 && runs()[1] == 1, "Cleanable::clean::post::noop_after_the_cleaner_is_gone");
    drop(a0);
    drop(a1);
    kani::assert(state(|s| sp::snap(s)).bytes == 0, "Cleaner::drop::post::map_released");
}

// ------------------------------------------------------------------------------------------------
// C07: a cleaning action panics (A-UNWIND: the action sets the emulated-unwinding flag and returns; the H4
// hook after `drop_in_place` in Cc::drop / after `drop_inner` in deallocate_list leaves every crate frame by
// `return`, which runs exactly the drop guards the real unwind runs).  Inside `Cleanable::clean` the action
// is the last thing the function does, so return and unwind coincide without a hook.
// ------------------------------------------------------------------------------------------------
/// What the caller of the API sees after catching the panic of a cleaning action (C07 statement).
fn after_caught_action_panic() {
    let sn = state(|s| sp::snap(s));
    kani::assert(!sn.collecting && !sn.finalizing && !sn.dropping && !state(|s| s.is_tracing()), "C07::cleaning_action_panic::collector_idle_and_is_tracing_false_after_the_caught_panic");
    crate::collect_cycles();
    let sn1 = state(|s| sp::snap(s));
    kani::assert(sn1.execs == sn.execs + 1, "C07::cleaning_action_panic::a_later_collection_can_start");
    kani::assert(!sn1.collecting && !sn1.finalizing && !sn1.dropping, "C07::cleaning_action_panic::collector_idle_after_the_later_collection");
    let fresh = Cc::new(Leaf(7));
    #[cfg(feature = "finalization")]
    kani::assert(!fresh.already_finalized(), "C07::cleaning_action_panic::new_objects_are_not_marked_finalized");
    match Cc::try_unwrap(fresh) {
        Ok(v) => { kani::assert(v.0 == 7, "C07::cleaning_action_panic::try_unwrap_of_a_fresh_unique_pointer_succeeds"); core::mem::forget(v); }
        Err(e) => { kani::assert(false, "C07::cleaning_action_panic::try_unwrap_of_a_fresh_unique_pointer_succeeds"); core::mem::forget(e); }
    }
}

//@ C07 C10 | bounded: one owner released by reference counting, 2 actions, the first one panics (emulated unwinding) | deciding | feat=full | fn=CleaningAction::drop,Cc::drop,Cleanable::clean,collect_cycles | timeout=1500
#[kani::proof]
#[kani::unwind(12)]
pub(crate) fn cleaning_action_panics_when_owner_released_by_count() {
    setup();
    let o = Cc::new(Owner { me: core::cell::RefCell::new(None), cleaner: Cleaner::new() });
    let a0 = o.cleaner.register(|| unsafe {
        RUNS[0] += 1;
        crate::verif::ghost::start_panic();
    });
    normalise(&o.cleaner, &a0);
    let a1 = o.cleaner.register(|| unsafe { RUNS[1] += 1 });
    drop(o);
    kani::assert(crate::verif::ghost::catch(), "C07::cleaning_action_panic::propagates_to_the_caller_of_the_drop");
    kani::assert(runs()[0] == 1 && runs()[1] <= 1, "CleaningAction::unwind::no_action_runs_twice");
    after_caught_action_panic();
    a0.clean();
    a1.clean();
    kani::assert(runs()[0] == 1 && runs()[1] <= 1, "Cleanable::clean::unwind::no_action_runs_twice_after_the_caught_panic");
    drop(a0);
    drop(a1);
}

//@ C07 C10 | bounded: one self-cycle owner reclaimed by the collector, 2 actions, the first one panics (emulated unwinding) | deciding | feat=full | fn=CleaningAction::drop,Cc::drop,deallocate_list,collect,collect_cycles | timeout=1500
#[kani::proof]
#[kani::unwind(12)]
pub(crate) fn cleaning_action_panics_when_owner_reclaimed_as_cycle() {
    setup();
    let p = Cc::new(Owner { me: core::cell::RefCell::new(None), cleaner: Cleaner::new() });
    match p.me.try_borrow_mut() {
        Ok(mut b) => *b = Some(p.clone()),
        Err(_) => kani::assume(false),
    }
    let a0 = p.cleaner.register(|| unsafe {
        RUNS[0] += 1;
        crate::verif::ghost::start_panic();
    });
    normalise(&p.cleaner, &a0);
    let a1 = p.cleaner.register(|| unsafe { RUNS[1] += 1 });
    drop(p);
    kani::assert(runs()[0] == 0 && runs()[1] == 0, "Cleaner::register::post::does_not_run_the_action");
    crate::collect_cycles();
    if !crate::verif::ghost::unwinding() {
        // with finalization the first pass only finalizes; the second one runs the destructors
        crate::collect_cycles();
    }
    kani::assert(crate::verif::ghost::catch(), "C07::cleaning_action_panic::propagates_to_the_caller_of_collect_cycles");
    kani::assert(runs()[0] == 1 && runs()[1] <= 1, "CleaningAction::unwind::no_action_runs_twice");
    after_caught_action_panic();
    a0.clean();
    a1.clean();
    kani::assert(runs()[0] == 1 && runs()[1] <= 1, "Cleanable::clean::unwind::no_action_runs_twice_after_the_caught_panic");
    drop(a0);
    drop(a1);
}

//@ C07 C10 | bounded: one Cleaner, 2 actions, the action run by clean() panics (return == unwind: it is the last effect of clean) | deciding | feat=full | fn=Cleanable::clean,CleaningAction::drop | timeout=1500
#[kani::proof]
#[kani::unwind(12)]
pub(crate) fn cleaning_action_panics_inside_clean() {
    setup();
    let c = Cleaner::new();
    let a0 = c.register(|| unsafe {
        RUNS[0] += 1;
        crate::verif::ghost::start_panic();
    });
    normalise(&c, &a0);
    let a1 = c.register(|| unsafe { RUNS[1] += 1 });
    a0.clean();
    kani::assert(crate::verif::ghost::catch(), "C07::cleaning_action_panic::propagates_to_the_caller_of_clean");
    kani::assert(runs()[0] == 1 && runs()[1] == 0, "Cleanable::clean::post::runs_exactly_its_action_once");
    after_caught_action_panic();
    a0.clean();
    kani::assert(runs()[0] == 1 && runs()[1] == 0, "Cleanable::clean::unwind::second_clean_is_a_noop_after_the_caught_panic");
    drop(c);
    kani::assert(runs()[0] == 1 && runs()[1] == 1, "Cleaner::drop::post::every_pending_action_ran_exactly_once");
    drop(a0);
    drop(a1);
}
