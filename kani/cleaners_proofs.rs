// placeholder
use super::*;
