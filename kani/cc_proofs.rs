// Specs, pre-state builders and contract harnesses for src/cc.rs (child module => private items
// such as CcBox::new, Cc.inner, CcBox.metadata are visible).
use super::*;
use crate::counter_marker::verif_proofs as cmp;
use crate::lists::verif_proofs as lp;
use crate::lists::{LinkedList, LinkedQueue};
use crate::state::verif_proofs as sp;
use crate::verif::ghost::{self, g};
use crate::verif::probes::*;
use crate::verif::probes::{Big, Leaf, Node, Zst};

pub(crate) type P = NonNull<CcBox<()>>;

// ------------------------------------------------------------------------------------------------
// header access helpers (used by the harnesses of every file)
// ------------------------------------------------------------------------------------------------
pub(crate) fn new_box<T: Trace + 'static>(t: T) -> NonNull<CcBox<T>> {
    state(|s| CcBox::new(t, s))
}
pub(crate) fn raw_of<T: ?Sized + Trace>(cc: &Cc<T>) -> P {
    cc.inner.cast()
}
pub(crate) fn cc_from_raw<T: Trace + 'static>(p: NonNull<CcBox<T>>) -> Cc<T> {
    Cc { inner: p, _phantom: PhantomData }
}
pub(crate) fn next_of(p: P) -> Option<P> {
    unsafe { *p.as_ref().get_next() }
}
pub(crate) fn prev_of(p: P) -> Option<P> {
    unsafe { *p.as_ref().get_prev() }
}
pub(crate) fn set_links(p: P, next: Option<P>, prev: Option<P>) {
    unsafe {
        *p.as_ref().get_next() = next;
        *p.as_ref().get_prev() = prev;
    }
}
pub(crate) fn words_of(p: P) -> (u16, u16) {
    cmp::words(unsafe { p.as_ref() }.counter_marker())
}
pub(crate) fn set_words_of(p: P, tracing: u16, counter: u16) {
    cmp::set_words(unsafe { p.as_ref() }.counter_marker(), tracing, counter);
}
pub(crate) fn cm_of<'a>(p: P) -> &'a CounterMarker {
    unsafe { p.as_ref() }.counter_marker()
}
/// mark bits (0 NonMarked, 1 PossibleCycles, 2 InList, 3 InQueue)
pub(crate) fn mark_of(p: P) -> u16 {
    words_of(p).0 >> 14
}
pub(crate) fn tracing_of(p: P) -> u16 {
    words_of(p).0 & 0x3fff
}
pub(crate) fn count_of(p: P) -> u16 {
    words_of(p).1 & 0x3fff
}
pub(crate) fn size_of_box<T: Trace + 'static>() -> usize {
    core::mem::size_of::<CcBox<T>>()
}
pub(crate) fn elem_addr<T: Trace + 'static>(p: NonNull<CcBox<T>>) -> usize {
    unsafe { p.as_ref() }.get_elem() as *const T as usize
}
pub(crate) fn elem_offset<T: Trace + 'static>() -> usize {
    core::mem::offset_of!(CcBox<T>, elem)
}

// ------------------------------------------------------------------------------------------------
// probe registry and pre-state builders
// ------------------------------------------------------------------------------------------------
#[allow(static_mut_refs)]
pub(crate) static mut REG: [Option<NonNull<CcBox<Node>>>; ghost::MAX_OBJ] = [None; ghost::MAX_OBJ];

/// Read the payload without going through Deref (which panics while tracing in debug builds).
pub(crate) fn peek_node(c: &Cc<Node>) -> &Node {
    c.inner().get_elem()
}
pub(crate) fn node_of<'a>(p: NonNull<CcBox<Node>>) -> &'a Node {
    unsafe { &*p.as_ref().get_elem_mut() }
}
/// A new Cc to registered object `id`, produced by the REAL Cc::clone.
pub(crate) fn clone_from_registry(id: usize) -> Option<Cc<Node>> {
    unsafe {
        match REG[id] {
            Some(p) => {
                let tmp = ManuallyDrop::new(Cc { inner: p, _phantom: PhantomData });
                Some((*tmp).clone())
            }
            None => None,
        }
    }
}
/// Create object `id` through the real Cc::new and register its address.
pub(crate) fn mk_node(id: u8) -> Cc<Node> {
    let c = Cc::new(Node::new(id));
    unsafe { REG[id as usize] = Some(c.inner) };
    c
}
pub(crate) fn reg_opt(id: usize) -> Option<P> {
    unsafe { REG[id].map(|p| p.cast()) }
}
pub(crate) fn reg(id: usize) -> P {
    unsafe { REG[id].unwrap().cast() }
}

pub(crate) const NODE_BOX: usize = core::mem::size_of::<CcBox<Node>>();

/// Symbolic idle-invariant header for `p` (I3/I4): count in 1..=MAX, arbitrary finalized bit,
/// metadata bit as it is; buffered => mark PossibleCycles and tracing counter 0, unbuffered =>
/// NonMarked with an arbitrary STALE tracing counter.
pub(crate) fn havoc_idle(p: P, in_pc: bool) -> (u16, u16) {
    let (_, c0) = words_of(p);
    let cnt: u16 = kani::any();
    kani::assume(cnt >= 1 && cnt <= 16382);
    let fin: bool = kani::any();
    let c = (c0 & 0x8000) | if fin { 0x4000 } else { 0 } | cnt;
    let t = if in_pc {
        0x4000
    } else {
        let stale: u16 = kani::any();
        kani::assume(stale < 0x3fff);
        stale
    };
    set_words_of(p, t, c);
    (t, c)
}

/// Put `x` (if `in_pc`) and up to two bystanders into the thread-local POSSIBLE_CYCLES in a symbolic
/// arrangement; returns the expected sequence and its length.
pub(crate) fn build_pc(x: P, others: [P; 2], in_pc: bool) -> ([Option<P>; 3], usize) {
    let k: usize = kani::any();
    kani::assume(k <= 2);
    let pos: usize = kani::any();
    kani::assume(pos <= k);
    let mut arr: [Option<P>; 3] = [None; 3];
    let mut n = 0;
    let mut i = 0;
    while i < 3 {
        if in_pc && i == pos {
            arr[n] = Some(x);
            n += 1;
        }
        if i < k {
            arr[n] = Some(others[i]);
            n += 1;
        }
        i += 1;
    }
    // link
    let mut i = 0;
    while i < n {
        let next = if i + 1 < n { arr[i + 1] } else { None };
        let prev = if i > 0 { arr[i - 1] } else { None };
        set_links(arr[i].unwrap(), next, prev);
        i += 1;
    }
    // bystanders in the buffer satisfy the idle invariant too
    let mut i = 0;
    while i < 2 {
        if i < k {
            havoc_idle(others[i], true);
        } else {
            havoc_idle(others[i], false);
        }
        i += 1;
    }
    POSSIBLE_CYCLES.with(|pc| lp::pc_set(pc, arr[0], n));
    (arr, n)
}

pub(crate) fn pc_view() -> (lp::Seq, usize) {
    POSSIBLE_CYCLES.with(|pc| (lp::seq(lp::pc_first(pc)), lp::pc_size(pc)))
}

/// expected buffer sequence after removing `x` from `arr`
pub(crate) fn pc_is(arr: &[Option<P>; 3], n: usize, without: Option<P>) -> (bool, bool) {
    let (s, size) = pc_view();
    let mut k = 0;
    let mut i = 0;
    let mut ok = s.wf;
    while i < 3 {
        if i < n && arr[i] != without {
            if s.e[k] != arr[i] {
                ok = false;
            }
            k += 1;
        }
        i += 1;
    }
    (ok && s.len == k, size == k)
}

pub(crate) fn any_flags_not_tracing() -> (bool, bool, bool) {
    let (c, f, d): (bool, bool, bool) = (kani::any(), kani::any(), kani::any());
    #[cfg(not(feature = "finalization"))]
    let f = false;
    kani::assume(!(c && !f && !d));
    state(|s| sp::set_flags(s, c, f, d));
    (c, f, d)
}

// ------------------------------------------------------------------------------------------------
// Cc::new / CcBox::new / layout
// ------------------------------------------------------------------------------------------------
fn new_contract<T: Trace + 'static>(t: T) -> Cc<T> {
    let (c, f, d) = any_flags_not_tracing();
    #[cfg(feature = "auto-collect")]
    let _ = crate::config::config(|cfg| cfg.set_auto_collect(false));
    let b0: usize = kani::any();
    kani::assume(b0 < (1usize << 40));
    state(|s| sp::set_bytes(s, b0));
    let cc = Cc::new(t);
    let p = raw_of(&cc);
    let (tw, cw) = words_of(p);
    kani::assert(cw & 0x3fff == 1, "Cc::new::post::strong_count_one");
    kani::assert(cc.strong_count() == 1, "Cc::strong_count::post::reads_counter");
    kani::assert(tw >> 14 == 0, "Cc::new::post::non_marked");
    kani::assert(cw & 0x8000 == 0, "Cc::new::post::no_side_record");
    kani::assert((cw & 0x4000 != 0) == f, "Cc::new::post::finalized_bit_equals_is_finalizing");
    kani::assert(next_of(p).is_none() && prev_of(p).is_none(), "Cc::new::post::unlinked");
    let sn = state(|s| sp::snap(s));
    kani::assert(sn.bytes == b0 + core::mem::size_of::<CcBox<T>>(), "Cc::new::post::allocated_bytes_plus_box_size");
    kani::assert(sn.collecting == c && sn.finalizing == f && sn.dropping == d, "Cc::new::frame::flags");
    kani::assert(cc.inner().layout() == Layout::new::<CcBox<T>>(), "CcBox::layout::post::equals_creation_layout");
    kani::assert(pc_view().1 == 0, "Cc::new::frame::buffer");
    cc
}

//@ C04 C05 C11 C03 C20 | complete | deciding | feat=full,std | fn=Cc::new,CcBox::new,CcBox::layout,Metadata::new,Cc::strong_count
#[kani::proof]
#[kani::unwind(9)]
pub(crate) fn cc_new_contract_leaf() {
    let v: u64 = kani::any();
    let cc = new_contract(Leaf(v));
    kani::assert((*cc).0 == v, "Cc::new::post::value_stored");
    kani::assert(&*cc as *const Leaf as usize == raw_of(&cc).as_ptr() as usize + elem_offset::<Leaf>(), "Cc::deref::post::address_is_box_plus_elem_offset");
    core::mem::forget(cc);
}

//@ C03 C20 | complete | deciding | feat=full | fn=Cc::new,CcBox::layout
#[kani::proof]
pub(crate) fn cc_new_contract_zst_big() {
    let a = new_contract(Zst);
    kani::assert(&*a as *const Zst as usize == raw_of(&a).as_ptr() as usize + elem_offset::<Zst>(), "Cc::deref::post::address_is_box_plus_elem_offset");
    let b = new_contract(Big([3; 96]));
    kani::assert((*b).0[95] == 3, "Cc::new::post::value_stored");
    kani::assert(&*b as *const Big as usize == raw_of(&b).as_ptr() as usize + elem_offset::<Big>(), "Cc::deref::post::address_is_box_plus_elem_offset");
    kani::assert(elem_offset::<Big>() % 64 == 0 && core::mem::align_of::<CcBox<Big>>() >= 64, "CcBox::layout::post::elem_offset_and_box_alignment_honour_T");
    kani::assert(elem_offset::<Leaf>() % core::mem::align_of::<Leaf>() == 0, "CcBox::layout::post::elem_offset_and_box_alignment_honour_T");
    core::mem::forget(a);
    core::mem::forget(b);
}

/// Cc::new while tracing: debug builds refuse (panic) before touching anything.
//@ C12 | complete | deciding | feat=full,std | fn=Cc::new | panic=Cannot create a new Cc while tracing!
#[kani::proof]
#[kani::should_panic]
pub(crate) fn cc_new_panics_while_tracing() {
    state(|s| sp::set_flags(s, true, false, false));
    let cc = Cc::new(Leaf(1));
    core::mem::forget(cc);
}

// ------------------------------------------------------------------------------------------------
// Cc::clone
// ------------------------------------------------------------------------------------------------
//@ C04 C11 C01 C16 | complete | deciding | feat=full,std | fn=Cc::clone,Cc::mark_alive,remove_from_list | timeout=600
#[kani::proof]
#[kani::unwind(9)]
pub(crate) fn cc_clone_contract() {
    let h = mk_node(0);
    let y = mk_node(1);
    let z = mk_node(2);
    let (x, py, pz) = (raw_of(&h), raw_of(&y), raw_of(&z));
    let in_pc: bool = kani::any();
    let (arr, n) = build_pc(x, [py, pz], in_pc);
    let (t0, c0) = havoc_idle(x, in_pc);
    kani::assume(c0 & 0x3fff < 16382);
    let (wy, wz) = (words_of(py), words_of(pz));
    let fl = any_flags_not_tracing();
    let sn0 = state(|s| sp::snap(s));
    let h2 = h.clone();
    kani::assert(Cc::ptr_eq(&h, &h2) && raw_of(&h2) == x, "Cc::clone::post::same_allocation");
    let (t1, c1) = words_of(x);
    kani::assert(c1 & 0x3fff == (c0 & 0x3fff) + 1, "Cc::clone::post::strong_count_plus_one");
    kani::assert(c1 & 0xc000 == c0 & 0xc000, "Cc::clone::frame::finalized_and_metadata_bits");
    kani::assert(t1 >> 14 == 0, "Cc::clone::post::not_buffered_mark");
    kani::assert(next_of(x).is_none() && prev_of(x).is_none(), "Cc::clone::post::unlinked");
    { let (a, b) = pc_is(&arr, n, Some(x)); kani::assert(a, "Cc::clone::post::buffer_is_old_buffer_without_operand"); kani::assert(b, "Cc::clone::post::buffered_count_minus_one_iff_was_buffered"); }
    kani::assert(words_of(py) == wy && words_of(pz) == wz, "Cc::clone::frame::other_objects");
    kani::assert(state(|s| sp::snap(s)) == sn0, "Cc::clone::frame::collector_state");
    kani::assert(peek_node(&h).intact() && g().n_trace == 0 && g().n_fin == 0 && g().n_drop == 0, "Cc::clone::frame::no_callback_value_intact");
    core::mem::forget((h, h2, y, z));
}

/// At the limit the only outcome is the panic (C16).
//@ C16 | complete | deciding | feat=full,std | fn=Cc::clone | panic=Too many references has been created to a single Cc
#[kani::proof]
#[kani::should_panic]
pub(crate) fn cc_clone_panics_at_max() {
    let h = mk_node(0);
    let x = raw_of(&h);
    let (t0, c0) = havoc_idle(x, false);
    kani::assume(c0 & 0x3fff == 16382);
    let h2 = h.clone();
    core::mem::forget((h, h2));
}

/// ... and the REAL `Cc::clone`, run through the emulated unwind out of its own limit panic (H5): what the
/// caller of a caught panic sees — count, flags, buffer membership, collector state — is what it was before.
/// Any local with drop glue that is live at the panic site is dropped by the emulated unwind, as by the real one.
//@ C16 C04 | complete | deciding | feat=full,std | fn=Cc::clone | timeout=600
#[kani::proof]
#[kani::unwind(9)]
pub(crate) fn cc_clone_at_max_unwinds_leaving_everything() {
    let h = mk_node(0);
    let y = mk_node(1);
    let z = mk_node(2);
    let (x, py, pz) = (raw_of(&h), raw_of(&y), raw_of(&z));
    let in_pc: bool = kani::any();
    let (arr, n) = build_pc(x, [py, pz], in_pc);
    let (t0, c0) = havoc_idle(x, in_pc);
    kani::assume(c0 & 0x3fff == 16382);
    let fl = any_flags_not_tracing();
    let sn0 = state(|s| sp::snap(s));
    g().emulate_limit_panics = true;
    let h2 = h.clone();
    core::mem::forget(h2); // poisoned result of the emulated unwind: never existed for the caller
    g().emulate_limit_panics = false;
    kani::assert(ghost::catch(), "Cc::clone::post::panics_at_limit");
    kani::assert(words_of(x) == (t0, c0), "Cc::clone::unwind::count_and_flags_unchanged_after_the_caught_panic");
    { let (a, b) = pc_is(&arr, n, None); kani::assert(a && b, "Cc::clone::unwind::buffer_unchanged_after_the_caught_panic"); }
    kani::assert(state(|s| sp::snap(s)) == sn0, "Cc::clone::unwind::collector_state_unchanged");
    kani::assert(peek_node(&h).intact() && g().n_trace == 0 && g().n_fin == 0 && g().n_drop == 0, "Cc::clone::unwind::no_callback_value_intact");
    core::mem::forget((h, y, z));
}

//@ C12 | complete | deciding | feat=full,std | fn=Cc::clone | panic=Cannot clone while tracing!
#[kani::proof]
#[kani::should_panic]
pub(crate) fn cc_clone_panics_while_tracing() {
    let h = mk_node(0);
    state(|s| sp::set_flags(s, true, false, false));
    let h2 = h.clone();
    core::mem::forget((h, h2));
}

// ------------------------------------------------------------------------------------------------
// remove_from_list / add_to_list / mark_alive
// ------------------------------------------------------------------------------------------------
//@ C11 C01 C02 | complete | deciding | feat=full,std | fn=add_to_list | timeout=600
#[kani::proof]
#[kani::unwind(9)]
pub(crate) fn cc_add_to_list_contract() {
    let h = mk_node(0);
    let y = mk_node(1);
    let z = mk_node(2);
    let (x, py, pz) = (raw_of(&h), raw_of(&y), raw_of(&z));
    let in_pc: bool = kani::any();
    let (arr, n) = build_pc(x, [py, pz], in_pc);
    let (t0, c0) = havoc_idle(x, in_pc);
    let (wy, wz) = (words_of(py), words_of(pz));
    add_to_list(x);
    let (t1, c1) = words_of(x);
    kani::assert(t1 >> 14 == 1, "add_to_list::post::marked_buffered");
    kani::assert(t1 & 0x3fff == 0, "add_to_list::post::tracing_counter_zero");
    kani::assert(c1 == c0, "add_to_list::frame::counter_word");
    let (s, size) = pc_view();
    kani::assert(s.wf && lp::contains(&s, x), "add_to_list::post::in_buffer");
    kani::assert(size == if in_pc { n } else { n + 1 } && s.len == size, "add_to_list::post::size_plus_one_iff_was_not_buffered");
    let mut i = 0;
    while i < 3 {
        if i < n && arr[i] != Some(x) {
            kani::assert(lp::contains(&s, arr[i].unwrap()), "add_to_list::frame::other_members_stay");
        }
        i += 1;
    }
    kani::assert(words_of(py) == wy && words_of(pz) == wz, "add_to_list::frame::other_objects");
    // idempotent
    add_to_list(x);
    kani::assert(pc_view().1 == size && words_of(x) == (t1, c1), "add_to_list::post::idempotent");
    core::mem::forget((h, y, z));
}

//@ C11 C01 | complete | deciding | feat=full,std | fn=remove_from_list,Cc::mark_alive | timeout=600
#[kani::proof]
#[kani::unwind(9)]
pub(crate) fn cc_remove_from_list_contract() {
    let h = mk_node(0);
    let y = mk_node(1);
    let z = mk_node(2);
    let (x, py, pz) = (raw_of(&h), raw_of(&y), raw_of(&z));
    let in_pc: bool = kani::any();
    let (arr, n) = build_pc(x, [py, pz], in_pc);
    let (t0, c0) = havoc_idle(x, in_pc);
    let (wy, wz) = (words_of(py), words_of(pz));
    let sn0 = state(|s| sp::snap(s));
    if kani::any() {
        remove_from_list(x);
    } else {
        h.mark_alive();
    }
    let (t1, c1) = words_of(x);
    kani::assert(t1 >> 14 == 0, "remove_from_list::post::non_marked");
    kani::assert(t1 & 0x3fff == t0 & 0x3fff && c1 == c0, "remove_from_list::frame::counters");
    kani::assert(next_of(x).is_none() && prev_of(x).is_none(), "remove_from_list::post::unlinked");
    { let (a, b) = pc_is(&arr, n, Some(x)); kani::assert(a, "remove_from_list::post::buffer_is_old_buffer_without_operand"); kani::assert(b, "remove_from_list::post::size_minus_one_iff_was_buffered"); }
    kani::assert(words_of(py) == wy && words_of(pz) == wz, "remove_from_list::frame::other_objects");
    kani::assert(state(|s| sp::snap(s)) == sn0, "remove_from_list::frame::collector_state");
    core::mem::forget((h, y, z));
}

/// mark_alive / remove_from_list on an object the collector currently owns (InList / InQueue) is a
/// no-op: it must not unlink it from the collector's working lists.
//@ C01 C12 | complete | deciding | feat=full,std | fn=remove_from_list,Cc::mark_alive
#[kani::proof]
#[kani::unwind(9)]
pub(crate) fn cc_remove_from_list_collector_owned_noop() {
    let h = mk_node(0);
    let y = mk_node(1);
    let (x, py) = (raw_of(&h), raw_of(&y));
    // x sits in a collector list with a neighbour
    let first = if kani::any() { lp::chain(&[x, py], 2) } else { lp::chain(&[py, x], 2) };
    let t: u16 = kani::any();
    let c: u16 = kani::any();
    kani::assume(t >> 14 >= 2 && (t & 0x3fff) != 0x3fff && (c & 0x3fff) != 0x3fff);
    set_words_of(x, t, c);
    let links = (next_of(x), prev_of(x), next_of(py), prev_of(py));
    h.mark_alive();
    kani::assert(words_of(x) == (t, c), "remove_from_list::collector_owned::frame::words");
    kani::assert((next_of(x), prev_of(x), next_of(py), prev_of(py)) == links, "remove_from_list::collector_owned::frame::links");
    kani::assert(pc_view().1 == 0, "remove_from_list::collector_owned::frame::buffer");
    core::mem::forget((h, y));
}

// ------------------------------------------------------------------------------------------------
// Cc::drop — three branches (DESIGN 4 cc.rs)
// ------------------------------------------------------------------------------------------------
pub(crate) fn cb_counts() -> (u16, u16, u16) {
    (g().n_trace, g().n_fin, g().n_drop)
}

/// Branch "count stays positive": exactly -1, buffered with tracing counter 0, nothing else.
//@ C04 C02 C11 C01 | complete | deciding | feat=full,std | fn=Cc::drop,add_to_list | timeout=600
#[kani::proof]
#[kani::unwind(9)]
pub(crate) fn cc_drop_contract_shared() {
    let h = mk_node(0);
    let y = mk_node(1);
    let z = mk_node(2);
    let (x, py, pz) = (raw_of(&h), raw_of(&y), raw_of(&z));
    let in_pc: bool = kani::any();
    let (arr, n) = build_pc(x, [py, pz], in_pc);
    let (t0, c0) = havoc_idle(x, in_pc);
    kani::assume(c0 & 0x3fff >= 2);
    let (wy, wz) = (words_of(py), words_of(pz));
    let fl = any_flags_not_tracing();
    let sn0 = state(|s| sp::snap(s));
    drop(h);
    let (t1, c1) = words_of(x);
    kani::assert(c1 & 0x3fff == (c0 & 0x3fff) - 1, "Cc::drop::shared::post::strong_count_minus_one");
    kani::assert(c1 & 0xc000 == c0 & 0xc000, "Cc::drop::shared::frame::finalized_and_metadata_bits");
    kani::assert(t1 >> 14 == 1, "Cc::drop::shared::post::buffered_when_count_stays_positive");
    kani::assert(t1 & 0x3fff == 0, "Cc::drop::shared::post::tracing_counter_zero");
    let (s, size) = pc_view();
    kani::assert(s.wf && lp::contains(&s, x) && s.len == size, "Cc::drop::shared::post::in_buffer_wellformed");
    kani::assert(size == if in_pc { n } else { n + 1 }, "Cc::drop::shared::post::buffered_count_plus_one_iff_was_not_buffered");
    let mut i = 0;
    while i < 3 {
        if i < n && arr[i] != Some(x) {
            kani::assert(lp::contains(&s, arr[i].unwrap()), "Cc::drop::shared::frame::other_members_stay");
        }
        i += 1;
    }
    kani::assert(words_of(py) == wy && words_of(pz) == wz, "Cc::drop::shared::frame::other_objects");
    kani::assert(state(|s| sp::snap(s)) == sn0, "Cc::drop::shared::frame::collector_state");
    kani::assert(cb_counts() == (0, 0, 0) && node_of(unsafe { REG[0].unwrap() }).intact(), "Cc::drop::shared::frame::no_callback_value_intact");
    core::mem::forget((y, z));
}

/// Branch "collector-owned" (mark InList / InQueue): plain decrement, nothing else.
//@ C01 C04 C12 | complete | deciding | feat=full,std | fn=Cc::drop | timeout=600
#[kani::proof]
#[kani::unwind(9)]
pub(crate) fn cc_drop_contract_collector_owned() {
    let h = mk_node(0);
    let y = mk_node(1);
    let (x, py) = (raw_of(&h), raw_of(&y));
    let first = if kani::any() { lp::chain(&[x, py], 2) } else { lp::chain(&[py, x], 2) };
    let t: u16 = kani::any();
    let c: u16 = kani::any();
    kani::assume(t >> 14 >= 2 && (t & 0x3fff) != 0x3fff && (c & 0x3fff) != 0x3fff && (c & 0x3fff) >= 1);
    set_words_of(x, t, c);
    let wy = words_of(py);
    let links = (next_of(x), prev_of(x), next_of(py), prev_of(py));
    let fl = any_flags_not_tracing();
    let sn0 = state(|s| sp::snap(s));
    drop(h);
    kani::assert(words_of(x) == (t, c - 1), "Cc::drop::collector_owned::post::decrement_only");
    kani::assert((next_of(x), prev_of(x), next_of(py), prev_of(py)) == links, "Cc::drop::collector_owned::frame::links");
    kani::assert(words_of(py) == wy, "Cc::drop::collector_owned::frame::other_objects");
    kani::assert(pc_view().1 == 0 && pc_view().0.len == 0, "Cc::drop::collector_owned::frame::not_buffered");
    kani::assert(state(|s| sp::snap(s)) == sn0, "Cc::drop::collector_owned::frame::collector_state");
    kani::assert(cb_counts() == (0, 0, 0) && node_of(unsafe { REG[0].unwrap() }).intact(), "Cc::drop::collector_owned::frame::no_callback_not_freed");
    core::mem::forget(y);
}

/// Branch "last owner" outside a collection: finalize once if due (flag first, under `finalizing`),
/// then one destructor (under `dropping`, marked dropped first), un-buffered, freed, bytes decreased,
/// flags restored — whatever the buffered / finalized / stale-counter state.
//@ C04 C03 C05 C11 C12 C02 | complete | deciding | feat=full,std,fin | fn=Cc::drop,remove_from_list,cc_dealloc,CcBox::layout | timeout=900
#[kani::proof]
#[kani::unwind(9)]
pub(crate) fn cc_drop_contract_last_owner() {
    let h = mk_node(0);
    let y = mk_node(1);
    let z = mk_node(2);
    let (x, py, pz) = (raw_of(&h), raw_of(&y), raw_of(&z));
    let in_pc: bool = kani::any();
    let (arr, n) = build_pc(x, [py, pz], in_pc);
    let (t0, c0) = havoc_idle(x, in_pc);
    kani::assume(c0 & 0x3fff == 1);
    let due = cfg!(feature = "finalization") && (c0 & 0x4000 == 0);
    let (wy, wz) = (words_of(py), words_of(pz));
    let fl = any_flags_not_tracing();
    let sn0 = state(|s| sp::snap(s));
    kani::assume(sn0.bytes >= 3 * NODE_BOX);
    drop(h);
    let gs = g();
    kani::assert(gs.n_fin == if due { 1 } else { 0 }, "Cc::drop::last_owner::post::finalized_once_iff_due");
    kani::assert(gs.n_drop == 1 && gs.drop_calls[0] == 1 && gs.double_drop == 0, "Cc::drop::last_owner::post::dropped_exactly_once");
    kani::assert(!due || gs.first_fin_seq[0] < gs.first_drop_seq[0], "Cc::drop::last_owner::post::finalize_before_drop");
    kani::assert(gs.fin_bit_unset_in_cb == 0, "Cc::drop::last_owner::post::finalized_flag_set_before_finalizer");
    kani::assert(!due || gs.fin_flags & 2 != 0, "Cc::drop::last_owner::post::finalizer_runs_under_finalizing");
    kani::assert(gs.drop_flags & 4 != 0, "Cc::drop::last_owner::post::destructor_runs_under_dropping");
    kani::assert(gs.fin_while_tracing == 0 && gs.drop_while_tracing == 0, "Cc::drop::last_owner::post::callbacks_not_tracing");
    kani::assert(gs.drop_not_marked_dropped == 0, "Cc::drop::last_owner::post::marked_dropped_before_destructor");
    kani::assert(gs.canary_broken == 0 && gs.n_trace == 0, "Cc::drop::last_owner::frame::value_intact_no_trace");
    let sn1 = state(|s| sp::snap(s));
    kani::assert(sn1.bytes == sn0.bytes - NODE_BOX, "Cc::drop::last_owner::post::allocated_bytes_minus_box_size");
    kani::assert(sp::Snap { bytes: sn0.bytes, ..sn1 } == sn0, "Cc::drop::last_owner::post::flags_restored_execs_kept");
    { let (a, b) = pc_is(&arr, n, Some(x)); kani::assert(a, "Cc::drop::last_owner::post::buffer_is_old_buffer_without_operand"); kani::assert(b, "Cc::drop::last_owner::post::buffered_count_minus_one_iff_was_buffered"); }
    kani::assert(words_of(py) == wy && words_of(pz) == wz, "Cc::drop::last_owner::frame::other_objects");
    core::mem::forget((y, z));
}

/// ... and the box really is released before the drop returns (CBMC must flag the read).
//@ C04 C03 C02 | complete | deciding | feat=full | fn=Cc::drop | mustfail=expect_freed | timeout=600
#[kani::proof]
#[kani::unwind(9)]
pub(crate) fn cc_drop_last_owner_releases_box() {
    let h = mk_node(0);
    let x = raw_of(&h);
    let in_pc: bool = kani::any();
    if in_pc {
        add_to_list(x);
    }
    let (t0, c0) = havoc_idle(x, in_pc);
    kani::assume(c0 & 0x3fff == 1);
    drop(h);
    let _ = crate::utils::verif_proofs::expect_freed(x.as_ptr() as *const u8);
}

/// Finalizer resurrects the object: not dropped, not freed, buffered with tracing counter 0.
//@ C06 C04 C05 C01 | complete | deciding | feat=full,fin | fn=Cc::drop | timeout=900
#[cfg(feature = "finalization")]
#[kani::proof]
#[kani::unwind(9)]
pub(crate) fn cc_drop_contract_resurrected() {
    let h = mk_node(0);
    let y = mk_node(1);
    let z = mk_node(2);
    let (x, py, pz) = (raw_of(&h), raw_of(&y), raw_of(&z));
    let in_pc: bool = kani::any();
    let (arr, n) = build_pc(x, [py, pz], in_pc);
    let (t0, c0) = havoc_idle(x, in_pc);
    kani::assume(c0 & 0x3fff == 1 && c0 & 0x4000 == 0);
    g().actions_on = true;
    g().fin_act[0] = ghost::Act::ResurrectSelf;
    let fl = any_flags_not_tracing();
    let sn0 = state(|s| sp::snap(s));
    drop(h);
    let gs = g();
    kani::assert(gs.n_fin == 1 && gs.n_drop == 0, "Cc::drop::resurrected::post::finalized_once_not_dropped");
    let (t1, c1) = words_of(x);
    kani::assert(c1 & 0x3fff == 1, "Cc::drop::resurrected::post::strong_count_is_number_of_handles");
    kani::assert(c1 & 0x4000 != 0, "Cc::drop::resurrected::post::finalized_bit_set");
    kani::assert(t1 >> 14 == 1 && t1 & 0x3fff == 0, "Cc::drop::resurrected::post::buffered_with_tracing_zero");
    let (s, size) = pc_view();
    kani::assert(s.wf && lp::contains(&s, x) && s.len == size, "Cc::drop::resurrected::post::in_buffer_wellformed");
    kani::assert(state(|s| sp::snap(s)) == sn0, "Cc::drop::resurrected::post::flags_restored_bytes_kept");
    kani::assert(node_of(unsafe { REG[0].unwrap() }).intact(), "Cc::drop::resurrected::post::value_intact");
    #[allow(static_mut_refs)]
    unsafe {
        kani::assert(STASH[0].is_some() && raw_of(STASH[0].as_ref().unwrap()) == x, "Cc::drop::resurrected::post::stashed_handle_points_to_object");
    }
    core::mem::forget((y, z));
}

//@ C12 | complete | deciding | feat=full,std | fn=Cc::drop | panic=Cannot drop while tracing!
#[kani::proof]
#[kani::should_panic]
pub(crate) fn cc_drop_panics_while_tracing() {
    let h = mk_node(0);
    state(|s| sp::set_flags(s, true, false, false));
    drop(h);
}

/// Recursion: a -> b (traced slot) -> c (UNTRACED slot), each solely owned; b and c possibly buffered
/// with stale state.  Dropping the last handle of `a` reclaims all three before returning.
fn drop_chain_case(bb: bool, bc: bool) {
    let a = mk_node(0);
    let b = mk_node(1);
    let c = mk_node(2);
    let (pa, pb, pc_) = (raw_of(&a), raw_of(&b), raw_of(&c));
    // buffer b and/or c the way the public API does (a second handle dropped)
    if bb { drop(b.clone()); }
    if bc { drop(c.clone()); }
    put(&peek_node(&b).hidden, Some(c));
    put(&peek_node(&a).s0, Some(b));
    // stale tracing counters on the unbuffered ones
    if !bb { let s: u16 = kani::any(); kani::assume(s < 0x3fff); set_words_of(pb, s, words_of(pb).1); }
    if !bc { let s: u16 = kani::any(); kani::assume(s < 0x3fff); set_words_of(pc_, s, words_of(pc_).1); }
    let b0 = state(|s| sp::snap(s)).bytes;
    drop(a);
    let gs = g();
    kani::assert(gs.n_drop == 3 && gs.drop_calls[0] == 1 && gs.drop_calls[1] == 1 && gs.drop_calls[2] == 1, "Cc::drop::last_owner::post::solely_owned_children_dropped_recursively");
    let exp_fin = if cfg!(feature = "finalization") { 3 } else { 0 };
    kani::assert(gs.n_fin == exp_fin && gs.fin_after_drop == 0, "Cc::drop::last_owner::post::children_finalized_once_iff_due");
    let sn = state(|s| sp::snap(s));
    kani::assert(sn.bytes == b0 - 3 * NODE_BOX, "Cc::drop::last_owner::post::all_boxes_released");
    kani::assert(!sn.collecting && !sn.finalizing && !sn.dropping, "Cc::drop::last_owner::post::flags_restored");
    kani::assert(pc_view().1 == 0 && pc_view().0.len == 0, "Cc::drop::last_owner::post::children_left_the_buffer");
    kani::assert(gs.canary_broken == 0 && gs.double_drop == 0, "Cc::drop::last_owner::post::no_double_drop");
}

//@ C04 C03 C02 | bounded: ownership chain of depth 3, children unbuffered | deciding | feat=full,std | fn=Cc::drop | timeout=900
#[kani::proof]
#[kani::unwind(9)]
pub(crate) fn cc_drop_last_owner_recursive_chain_ff() {
    drop_chain_case(false, false);
}
//@ C04 C03 C02 | bounded: ownership chain of depth 3, both children buffered | deciding | feat=full,std | fn=Cc::drop | timeout=900
#[kani::proof]
#[kani::unwind(9)]
pub(crate) fn cc_drop_last_owner_recursive_chain_tt() {
    drop_chain_case(true, true);
}
//@ C04 C03 C02 | bounded: ownership chain of depth 3, middle child buffered | deciding | thorough | feat=full,std | fn=Cc::drop | timeout=900
#[kani::proof]
#[kani::unwind(9)]
pub(crate) fn cc_drop_last_owner_recursive_chain_tf() {
    drop_chain_case(true, false);
}
//@ C04 C03 C02 | bounded: ownership chain of depth 3, last child buffered | deciding | thorough | feat=full,std | fn=Cc::drop | timeout=900
#[kani::proof]
#[kani::unwind(9)]
pub(crate) fn cc_drop_last_owner_recursive_chain_ft() {
    drop_chain_case(false, true);
}

// ------------------------------------------------------------------------------------------------
// side-record (weak-ptrs) accessors used by weak_proofs.rs
// ------------------------------------------------------------------------------------------------
#[cfg(feature = "weak-ptrs")]
pub(crate) mod md {
    use super::*;
    use crate::weak::weak_counter_marker::verif_proofs as wp;
    pub(crate) type M = NonNull<BoxedMetadata>;
    pub(crate) fn md_of(p: P) -> Option<M> {
        if cm_of(p).has_allocated_for_metadata() { Some(unsafe { p.as_ref().get_metadata_unchecked() }) } else { None }
    }
    pub(crate) fn wword(m: M) -> u16 {
        wp::word(unsafe { &m.as_ref().weak_counter_marker })
    }
    pub(crate) fn set_wword(m: M, v: u16) {
        wp::set_word(unsafe { &m.as_ref().weak_counter_marker }, v)
    }
    /// the fat pointer stored in the record / inline (data address part)
    pub(crate) fn vtable_data_addr(p: P) -> usize {
        unsafe { p.as_ref() }.vtable().fat_ptr.as_ptr() as *const u8 as usize
    }
    /// A-UNION (declared assumption, L2 weak instances only): re-store the side-record pointer into the
    /// header union through the union's WIDEST member.  Bytes 0..8 (the only ones the crate reads while
    /// the record bit is set) are identical to what `get_or_init_metadata` stored; bytes 8..16, which
    /// the crate leaves undefined, become the object's own vtable pointer.  Without this CBMC cannot
    /// constant-fold the read of the narrow union member (pointer reassembled from bytes with a
    /// different pointee type) and every later `dyn` call through the record explodes symbolically.
    pub(crate) fn normalise_record_ptr<T: Trace + 'static>(b: NonNull<CcBox<T>>, m: M) {
        let fat: *mut dyn InternalTrace = m.as_ptr() as *mut CcBox<T> as *mut dyn InternalTrace;
        unsafe {
            b.as_ref().metadata.set(Metadata { vtable: VTable { fat_ptr: NonNull::new_unchecked(fat) } });
        }
    }
    pub(crate) fn record_vtable_data_addr(m: M) -> usize {
        unsafe { m.as_ref() }.vtable.fat_ptr.as_ptr() as *const u8 as usize
    }
}

// ------------------------------------------------------------------------------------------------
// CcBox::trace — the transition table of both tracing phases (DESIGN 4 cc.rs).
// One harness per (phase, mark of the traced object) = control enumerated by hand; the two header
// words, the position of the object in its list and the neighbour contents are symbolic.
// Preconditions are the collector's own (debug-asserted) invariant: tracing counter < counter when
// the object is already owned by the collector (each Cc is traced at most once: Trace contract).
// ------------------------------------------------------------------------------------------------
pub(crate) struct TraceEnv {
    pub root: LinkedList,
    pub non_root: LinkedList,
    pub queue: LinkedQueue,
}
fn lseq(l: &LinkedList) -> lp::Seq {
    lp::seq(lp::ll_first(l))
}
fn qseq(q: &LinkedQueue) -> lp::Seq {
    lp::qseq(lp::q_first(q))
}
fn seq_eq(a: &lp::Seq, b: &[Option<P>], n: usize) -> bool {
    let mut ok = a.wf && a.len == n;
    let mut i = 0;
    while i < n {
        if a.e[i] != b[i] {
            ok = false;
        }
        i += 1;
    }
    ok
}
fn trace_counting(x: P, env: &mut TraceEnv) {
    let mut ctx = Context::new(ContextInner::Counting { root_list: &mut env.root, non_root_list: &mut env.non_root, queue: &mut env.queue });
    CcBox::trace(x, &mut ctx);
}
fn trace_roots(x: P, env: &mut TraceEnv) {
    let mut ctx = Context::new(ContextInner::RootTracing { non_root_list: &mut env.non_root, queue: &mut env.queue });
    CcBox::trace(x, &mut ctx);
}
/// symbolic words for the traced object with the given mark; tracing < counter <= MAX
fn havoc_traced(x: P, mark: u16) -> (u16, u16) {
    let t: u16 = kani::any();
    let c: u16 = kani::any();
    kani::assume(t >> 14 == mark);
    kani::assume((c & 0x3fff) <= 16382 && (t & 0x3fff) < (c & 0x3fff));
    set_words_of(x, t, c);
    (t, c)
}
fn forget_env(env: TraceEnv) {
    core::mem::forget(env.root);
    core::mem::forget(env.non_root);
    core::mem::forget(env.queue);
}

/// Counting phase, object already in root_list (mark InList): exactly tracing+1; moves root -> non-root
/// exactly when the counters meet; the reference counter is never written.
//@ C01 C02 | complete | deciding | feat=full,std | fn=CcBox::trace | timeout=600
#[kani::proof]
#[kani::unwind(9)]
pub(crate) fn ccbox_trace_counting_in_list() {
    let (x, y, z, w) = (lp::new_leaf_box(0), lp::new_leaf_box(1), lp::new_leaf_box(2), lp::new_leaf_box(3));
    let (t0, c0) = havoc_traced(x, 2);
    let wy = lp::havoc_words(y);
    let wz = lp::havoc_words(z);
    let ww = lp::havoc_words(w);
    // root_list = [x], [x,y] or [y,x]; non_root_list = [] or [z]; queue = [] or [w]
    let shape: u8 = kani::any();
    kani::assume(shape < 3);
    let root_first = match shape { 0 => lp::chain(&[x], 1), 1 => lp::chain(&[x, y], 2), _ => lp::chain(&[y, x], 2) };
    let has_z: bool = kani::any();
    let has_w: bool = kani::any();
    let mut env = TraceEnv {
        root: lp::ll_from(root_first),
        non_root: lp::ll_from(if has_z { Some(z) } else { None }),
        queue: if has_w { lp::q_from(Some(w), Some(w)) } else { lp::q_from(None, None) },
    };
    trace_counting(x, &mut env);
    let (t1, c1) = words_of(x);
    kani::assert(c1 == c0, "CcBox::trace::counting::frame::reference_counter_never_written");
    kani::assert(t1 == t0 + 1, "CcBox::trace::counting::post::tracing_counter_plus_one_mark_kept");
    let meet = (t0 & 0x3fff) + 1 == (c0 & 0x3fff);
    let r = lseq(&env.root);
    let nr = lseq(&env.non_root);
    if meet {
        let exp_root = [if shape == 0 { None } else { Some(y) }];
        kani::assert(seq_eq(&r, &exp_root, if shape == 0 { 0 } else { 1 }), "CcBox::trace::counting::post::leaves_root_list_when_counters_meet");
        kani::assert(seq_eq(&nr, &[Some(x), Some(z)], if has_z { 2 } else { 1 }), "CcBox::trace::counting::post::enters_non_root_list_when_counters_meet");
    } else {
        let exp: [Option<P>; 2] = match shape { 0 => [Some(x), None], 1 => [Some(x), Some(y)], _ => [Some(y), Some(x)] };
        kani::assert(seq_eq(&r, &exp, if shape == 0 { 1 } else { 2 }), "CcBox::trace::counting::post::stays_root_while_counters_differ");
        kani::assert(seq_eq(&nr, &[Some(z)], if has_z { 1 } else { 0 }), "CcBox::trace::counting::frame::non_root_list");
        kani::assert(!lp::contains(&nr, x), "CcBox::trace::counting::post::non_root_only_when_counters_meet");
    }
    kani::assert(seq_eq(&qseq(&env.queue), &[Some(w)], if has_w { 1 } else { 0 }), "CcBox::trace::counting::frame::queue");
    kani::assert(words_of(y) == wy && words_of(z) == wz && words_of(w) == ww, "CcBox::trace::counting::frame::other_objects");
    kani::assert(pc_view().1 == 0, "CcBox::trace::counting::frame::buffer");
    forget_env(env);
}

/// Counting phase, object marked InQueue (queued, or the one currently being traced: a self-loop):
/// tracing+1 only, no list is touched even when the counters meet.
//@ C01 C02 | complete | deciding | feat=full,std | fn=CcBox::trace | timeout=600
#[kani::proof]
#[kani::unwind(9)]
pub(crate) fn ccbox_trace_counting_in_queue() {
    let (x, y, z, w) = (lp::new_leaf_box(0), lp::new_leaf_box(1), lp::new_leaf_box(2), lp::new_leaf_box(3));
    let (t0, c0) = havoc_traced(x, 3);
    let wy = lp::havoc_words(y);
    let wz = lp::havoc_words(z);
    let ww = lp::havoc_words(w);
    // x is in the queue ([x], [x,w], [w,x]) or unlinked (currently being traced)
    let shape: u8 = kani::any();
    kani::assume(shape < 4);
    let (qf, ql, qn): (Option<P>, Option<P>, usize) = match shape {
        0 => (None, None, 0),
        1 => { set_links(x, None, None); (Some(x), Some(x), 1) }
        2 => { set_links(x, Some(w), None); (Some(x), Some(w), 2) }
        _ => { set_links(w, Some(x), None); (Some(w), Some(x), 2) }
    };
    let mut env = TraceEnv { root: lp::ll_from(Some(y)), non_root: lp::ll_from(Some(z)), queue: lp::q_from(qf, ql) };
    let q0 = qseq(&env.queue);
    trace_counting(x, &mut env);
    kani::assert(words_of(x) == (t0 + 1, c0), "CcBox::trace::counting::queued::post::tracing_counter_plus_one_only");
    kani::assert(seq_eq(&lseq(&env.root), &[Some(y)], 1) && seq_eq(&lseq(&env.non_root), &[Some(z)], 1), "CcBox::trace::counting::queued::frame::lists");
    let q1 = qseq(&env.queue);
    kani::assert(q1.len == q0.len && q1.e[0] == q0.e[0] && q1.e[1] == q0.e[1] && q1.len == qn, "CcBox::trace::counting::queued::frame::queue");
    kani::assert(words_of(y) == wy && words_of(z) == wz && words_of(w) == ww, "CcBox::trace::counting::queued::frame::other_objects");
    forget_env(env);
}

/// Counting phase, object still buffered (mark PossibleCycles): tracing+1, stays where it is.
//@ C01 C02 | complete | deciding | feat=full,std | fn=CcBox::trace | timeout=600
#[kani::proof]
#[kani::unwind(9)]
pub(crate) fn ccbox_trace_counting_buffered() {
    let (x, y, z, w) = (lp::new_leaf_box(0), lp::new_leaf_box(1), lp::new_leaf_box(2), lp::new_leaf_box(3));
    let (arr, n) = build_pc(x, [y, z], true);
    let (t0, c0) = havoc_traced(x, 1);
    let (wy, wz) = (words_of(y), words_of(z));
    let ww = lp::havoc_words(w);
    let mut env = TraceEnv { root: lp::ll_from(None), non_root: lp::ll_from(None), queue: lp::q_from(Some(w), Some(w)) };
    trace_counting(x, &mut env);
    kani::assert(words_of(x) == (t0 + 1, c0), "CcBox::trace::counting::buffered::post::tracing_counter_plus_one_only");
    { let (a, b) = pc_is(&arr, n, None); kani::assert(a && b, "CcBox::trace::counting::buffered::frame::buffer"); }
    kani::assert(lseq(&env.root).len == 0 && lseq(&env.non_root).len == 0 && seq_eq(&qseq(&env.queue), &[Some(w)], 1), "CcBox::trace::counting::buffered::frame::lists");
    kani::assert(words_of(y) == wy && words_of(z) == wz && words_of(w) == ww, "CcBox::trace::counting::buffered::frame::other_objects");
    forget_env(env);
}

/// Counting phase, object not yet seen by this collection (NonMarked, STALE tracing counter of any
/// value): the stale value is discarded (reset, then 1), the object is queued exactly once.
//@ C01 C02 | complete | deciding | feat=full,std | fn=CcBox::trace | timeout=600
#[kani::proof]
#[kani::unwind(9)]
pub(crate) fn ccbox_trace_counting_non_marked() {
    let (x, y, z, w) = (lp::new_leaf_box(0), lp::new_leaf_box(1), lp::new_leaf_box(2), lp::new_leaf_box(3));
    let t0: u16 = kani::any();
    let c0: u16 = kani::any();
    kani::assume(t0 >> 14 == 0 && (t0 & 0x3fff) != 0x3fff && (c0 & 0x3fff) >= 1 && (c0 & 0x3fff) <= 16382);
    set_words_of(x, t0, c0);
    let wy = lp::havoc_words(y);
    let wz = lp::havoc_words(z);
    let ww = lp::havoc_words(w);
    let has_w: bool = kani::any();
    let mut env = TraceEnv { root: lp::ll_from(Some(y)), non_root: lp::ll_from(Some(z)), queue: if has_w { lp::q_from(Some(w), Some(w)) } else { lp::q_from(None, None) } };
    trace_counting(x, &mut env);
    kani::assert(words_of(x) == (0xc000 | 1, c0), "CcBox::trace::counting::fresh::post::stale_tracing_counter_discarded_then_one_and_queued_mark");
    let q = qseq(&env.queue);
    if has_w {
        kani::assert(seq_eq(&q, &[Some(w), Some(x)], 2) && lp::q_last(&env.queue) == Some(x), "CcBox::trace::counting::fresh::post::appended_to_queue");
    } else {
        kani::assert(seq_eq(&q, &[Some(x)], 1) && lp::q_last(&env.queue) == Some(x), "CcBox::trace::counting::fresh::post::appended_to_queue");
    }
    kani::assert(seq_eq(&lseq(&env.root), &[Some(y)], 1) && seq_eq(&lseq(&env.non_root), &[Some(z)], 1), "CcBox::trace::counting::fresh::frame::lists");
    kani::assert(words_of(y) == wy && words_of(z) == wz && (words_of(w) == ww), "CcBox::trace::counting::fresh::frame::other_objects");
    kani::assert(pc_view().1 == 0, "CcBox::trace::counting::fresh::frame::buffer");
    forget_env(env);
}

/// Root-tracing phase: an object is pulled out of non_root_list (and queued for root tracing) exactly
/// when it is InList with equal counters; in every other state nothing at all is written.
//@ C01 C06 | complete | deciding | feat=full,std | fn=CcBox::trace | timeout=600
#[kani::proof]
#[kani::unwind(9)]
pub(crate) fn ccbox_trace_roots_table() {
    let (x, y, z, w) = (lp::new_leaf_box(0), lp::new_leaf_box(1), lp::new_leaf_box(2), lp::new_leaf_box(3));
    let t0: u16 = kani::any();
    let c0: u16 = kani::any();
    kani::assume((t0 & 0x3fff) != 0x3fff && (c0 & 0x3fff) <= 16382 && (t0 & 0x3fff) <= (c0 & 0x3fff));
    set_words_of(x, t0, c0);
    let wy = lp::havoc_words(y);
    let wz = lp::havoc_words(z);
    let ww = lp::havoc_words(w);
    let garbage = (t0 >> 14 == 2) && (t0 & 0x3fff) == (c0 & 0x3fff);
    // non_root_list: x at a symbolic position when it is a non-root candidate, else [y,z]
    let shape: u8 = kani::any();
    kani::assume(shape < 3);
    let nr_first = if garbage {
        match shape { 0 => lp::chain(&[x], 1), 1 => lp::chain(&[x, y], 2), _ => lp::chain(&[y, x, z], 3) }
    } else {
        lp::chain(&[y, z], 2)
    };
    let links0 = (next_of(x), prev_of(x));
    let has_w: bool = kani::any();
    let mut env = TraceEnv { root: lp::ll_from(None), non_root: lp::ll_from(nr_first), queue: if has_w { lp::q_from(Some(w), Some(w)) } else { lp::q_from(None, None) } };
    trace_roots(x, &mut env);
    let nr = lseq(&env.non_root);
    let q = qseq(&env.queue);
    if garbage {
        kani::assert(words_of(x) == ((t0 & 0x3fff) | 0xc000, c0), "CcBox::trace::roots::post::reached_object_marked_queued_counters_kept");
        kani::assert(!lp::contains(&nr, x) && nr.wf, "CcBox::trace::roots::post::reached_object_leaves_non_root_list");
        let exp: [Option<P>; 2] = match shape { 0 => [None, None], 1 => [Some(y), None], _ => [Some(y), Some(z)] };
        kani::assert(seq_eq(&nr, &exp, shape as usize), "CcBox::trace::roots::post::non_root_list_is_old_list_without_it");
        if has_w {
            kani::assert(seq_eq(&q, &[Some(w), Some(x)], 2), "CcBox::trace::roots::post::queued_for_root_tracing");
        } else {
            kani::assert(seq_eq(&q, &[Some(x)], 1), "CcBox::trace::roots::post::queued_for_root_tracing");
        }
    } else {
        kani::assert(words_of(x) == (t0, c0) && (next_of(x), prev_of(x)) == links0, "CcBox::trace::roots::post::other_states_untouched");
        kani::assert(seq_eq(&nr, &[Some(y), Some(z)], 2), "CcBox::trace::roots::frame::non_root_list");
        kani::assert(seq_eq(&q, &[Some(w)], if has_w { 1 } else { 0 }), "CcBox::trace::roots::frame::queue");
    }
    kani::assert((words_of(y).1 == wy.1) && (words_of(z).1 == wz.1) && words_of(w) == ww, "CcBox::trace::roots::frame::other_objects");
    kani::assert(words_of(y).0 == wy.0 && words_of(z).0 == wz.0, "CcBox::trace::roots::frame::other_objects");
    forget_env(env);
}

// ------------------------------------------------------------------------------------------------
// C20: Cc is a transparent pointer — addresses, ptr_eq, forwarding trait impls
// ------------------------------------------------------------------------------------------------
/// Deref / AsRef / Borrow give the same address (box + offset_of(elem)) on a Cc and on its clones,
/// and the address does not change across operations that do not free the object.
//@ C20 | complete | deciding | feat=full,std | fn=Cc::deref,Cc::as_ref,Cc::borrow,Cc::ptr_eq,Cc::clone | timeout=600
#[kani::proof]
#[kani::unwind(9)]
pub(crate) fn cc_addresses_stable_and_equal() {
    let v: u64 = kani::any();
    let a = new_contract(Leaf(v));
    let base = raw_of(&a).as_ptr() as usize + elem_offset::<Leaf>();
    let d0 = &*a as *const Leaf as usize;
    let r0 = AsRef::<Leaf>::as_ref(&a) as *const Leaf as usize;
    let b0 = Borrow::<Leaf>::borrow(&a) as *const Leaf as usize;
    kani::assert(d0 == base && r0 == base && b0 == base, "Cc::deref::post::address_is_box_plus_elem_offset");
    let a2 = a.clone();
    kani::assert(&*a2 as *const Leaf as usize == base && AsRef::<Leaf>::as_ref(&a2) as *const Leaf as usize == base, "Cc::deref::post::clones_give_same_address");
    kani::assert(Cc::ptr_eq(&a, &a2), "Cc::ptr_eq::post::true_for_same_allocation");
    drop(a2); // buffers the object
    a.mark_alive();
    kani::assert(&*a as *const Leaf as usize == base && (*a).0 == v, "Cc::deref::post::address_stable_across_operations");
    let other = Cc::new(Leaf(v));
    kani::assert(!Cc::ptr_eq(&a, &other) && !Cc::ptr_eq(&other, &a), "Cc::ptr_eq::post::false_for_different_allocations");
    kani::assert(Cc::ptr_eq(&other, &other), "Cc::ptr_eq::post::true_for_same_allocation");
    core::mem::forget((a, other));
}

/// alignment: offset_of(elem) and the box alignment honour T for the layout grid
#[repr(align(4096))]
pub(crate) struct Page(pub [u8; 1]);
unsafe impl Trace for Page {
    fn trace(&self, _: &mut Context<'_>) {}
}
impl Finalize for Page {}
#[repr(align(2))]
pub(crate) struct Odd(pub [u8; 3]);
unsafe impl Trace for Odd {
    fn trace(&self, _: &mut Context<'_>) {}
}
impl Finalize for Odd {}
fn layout_ok<T: Trace + 'static>() -> bool {
    let l = Layout::new::<CcBox<T>>();
    elem_offset::<T>() % core::mem::align_of::<T>() == 0
        && l.align() >= core::mem::align_of::<T>()
        && l.align() % core::mem::align_of::<T>() == 0
        && l.size() >= elem_offset::<T>() + core::mem::size_of::<T>()
}
//@ C20 C03 | complete | deciding | feat=full,std | fn=CcBox::layout,Cc::new | timeout=600
#[kani::proof]
#[kani::unwind(9)]
pub(crate) fn cc_layout_grid_alignment() {
    kani::assert(layout_ok::<Zst>() && layout_ok::<Leaf>() && layout_ok::<Big>() && layout_ok::<Page>() && layout_ok::<Odd>() && layout_ok::<Node>() && layout_ok::<u8>() && layout_ok::<[u64; 512]>(),
        "CcBox::layout::post::elem_offset_and_box_alignment_honour_T");
    let p = Cc::new(Page([7]));
    kani::assert(p.inner().layout() == Layout::new::<CcBox<Page>>() && (*p).0[0] == 7, "CcBox::layout::post::equals_creation_layout");
    kani::assert(&*p as *const Page as usize == raw_of(&p).as_ptr() as usize + elem_offset::<Page>(), "Cc::deref::post::address_is_box_plus_elem_offset");
    let o = Cc::new(Odd([1, 2, 3]));
    kani::assert(o.inner().layout() == Layout::new::<CcBox<Odd>>() && (*o).0[2] == 3, "CcBox::layout::post::equals_creation_layout");
    drop(p); // freed with the 4096-aligned layout (CBMC dealloc checks)
    drop(o);
    kani::assert(state(|s| sp::snap(s)).bytes == 0, "Cc::drop::last_owner::post::allocated_bytes_minus_box_size");
}

/// every comparison method on Cc<T> equals the same method on T, for all pairs of values, both for
/// two allocations and for two pointers to the SAME allocation
fn cmp_forwarding<T: Trace + PartialOrd + Copy + 'static>(x: T, y: T) {
    let a = Cc::new(x);
    let b = Cc::new(y);
    kani::assert((a == b) == (x == y), "Cc::eq::post::same_as_T");
    kani::assert((a != b) == (x != y), "Cc::ne::post::same_as_T");
    kani::assert(a.partial_cmp(&b) == x.partial_cmp(&y), "Cc::partial_cmp::post::same_as_T");
    kani::assert((a < b) == (x < y), "Cc::lt::post::same_as_T");
    kani::assert((a <= b) == (x <= y), "Cc::le::post::same_as_T");
    kani::assert((a > b) == (x > y), "Cc::gt::post::same_as_T");
    kani::assert((a >= b) == (x >= y), "Cc::ge::post::same_as_T");
    let a2 = a.clone();
    kani::assert((a == a2) == (x == x) && (a != a2) == (x != x), "Cc::eq::post::same_as_T_for_same_allocation");
    kani::assert(a.partial_cmp(&a2) == x.partial_cmp(&x) && (a <= a2) == (x <= x) && (a < a2) == (x < x) && (a >= a2) == (x >= x), "Cc::partial_cmp::post::same_as_T_for_same_allocation");
    core::mem::forget((a, b, a2));
}
//@ C20 | complete | deciding | feat=full,std | fn=Cc::eq,Cc::partial_cmp,Cc::lt,Cc::le,Cc::gt,Cc::ge | timeout=600
#[kani::proof]
#[kani::unwind(9)]
pub(crate) fn cc_cmp_forwarding_f32_all_pairs_incl_nan() {
    cmp_forwarding::<f32>(kani::any(), kani::any());
}
//@ C20 | complete | deciding | feat=full,std | fn=Cc::eq,Cc::partial_cmp,Cc::lt,Cc::le,Cc::gt,Cc::ge,Cc::cmp | timeout=600
#[kani::proof]
#[kani::unwind(9)]
pub(crate) fn cc_cmp_forwarding_i8_all_pairs() {
    let (x, y): (i8, i8) = (kani::any(), kani::any());
    cmp_forwarding::<i8>(x, y);
    let a = Cc::new(x);
    let b = Cc::new(y);
    kani::assert(a.cmp(&b) == x.cmp(&y), "Cc::cmp::post::same_as_T");
    core::mem::forget((a, b));
}
//@ C20 | complete | deciding | feat=full,std | fn=Cc::eq,Cc::partial_cmp,Cc::lt,Cc::le,Cc::gt,Cc::ge,Cc::cmp | timeout=900
#[kani::proof]
#[kani::unwind(9)]
pub(crate) fn cc_cmp_forwarding_pairs_of_u8() {
    let (p, q): ((u8, u8), (u8, u8)) = (kani::any(), kani::any());
    cmp_forwarding::<(u8, u8)>(p, q);
    let c = Cc::new(p);
    let d = Cc::new(q);
    kani::assert(c.cmp(&d) == p.cmp(&q), "Cc::cmp::post::same_as_T");
    core::mem::forget((c, d));
}

/// Hash: the byte stream fed to an arbitrary Hasher is the one T feeds
pub(crate) struct RecHasher {
    pub buf: [u8; 8],
    pub n: usize,
    pub calls: u32,
}
impl Hasher for RecHasher {
    fn finish(&self) -> u64 {
        0
    }
    fn write(&mut self, bytes: &[u8]) {
        self.calls += 1;
        let mut i = 0;
        while i < bytes.len() {
            if self.n < 8 {
                self.buf[self.n] = bytes[i];
            }
            self.n += 1;
            i += 1;
        }
    }
}
//@ C20 | complete | deciding | feat=full,std | fn=Cc::hash,Cc::default | timeout=600
#[kani::proof]
#[kani::unwind(9)]
pub(crate) fn cc_hash_and_default_forwarding() {
    let x: u32 = kani::any();
    let a = Cc::new(x);
    let mut h1 = RecHasher { buf: [0; 8], n: 0, calls: 0 };
    let mut h2 = RecHasher { buf: [0; 8], n: 0, calls: 0 };
    a.hash(&mut h1);
    x.hash(&mut h2);
    kani::assert(h1.buf == h2.buf && h1.n == h2.n && h1.calls == h2.calls && h1.n == 4, "Cc::hash::post::same_byte_stream_as_T");
    let p: (u8, i8) = kani::any();
    let c = Cc::new(p);
    let mut h3 = RecHasher { buf: [0; 8], n: 0, calls: 0 };
    let mut h4 = RecHasher { buf: [0; 8], n: 0, calls: 0 };
    c.hash(&mut h3);
    p.hash(&mut h4);
    kani::assert(h3.buf == h4.buf && h3.n == h4.n && h3.calls == h4.calls, "Cc::hash::post::same_byte_stream_as_T");
    let d: Cc<u16> = Cc::default();
    kani::assert(*d == u16::default() && d.strong_count() == 1, "Cc::default::post::default_value_fresh_allocation");
    let e: Cc<(u8, bool)> = Default::default();
    kani::assert(*e == (0, false), "Cc::default::post::default_value_fresh_allocation");
    let f: Cc<u8> = Cc::from(7u8);
    kani::assert(*f == 7 && f.strong_count() == 1, "Cc::from::post::value_stored");
    core::mem::forget((a, c, d, e, f));
}

/// Debug / Display forward to T's impl (a probe payload records the calls); Pointer prints the value address
pub(crate) struct FmtProbe(pub u8);
unsafe impl Trace for FmtProbe {
    fn trace(&self, _: &mut Context<'_>) {}
}
impl Finalize for FmtProbe {}
pub(crate) static mut FMT_CALLS: (u32, u32) = (0, 0);
/// the format spec (alternate, sign_plus, width, precision) that reached T's impl in the latest call
pub(crate) static mut FMT_SPEC: (bool, bool, Option<usize>, Option<usize>) = (false, false, None, None);
impl Debug for FmtProbe {
    fn fmt(&self, _f: &mut Formatter<'_>) -> fmt::Result {
        unsafe { FMT_CALLS.0 += self.0 as u32 };
        unsafe { FMT_SPEC = (_f.alternate(), _f.sign_plus(), _f.width(), _f.precision()) };
        Ok(())
    }
}
impl Display for FmtProbe {
    fn fmt(&self, _f: &mut Formatter<'_>) -> fmt::Result {
        unsafe { FMT_CALLS.1 += self.0 as u32 };
        unsafe { FMT_SPEC = (_f.alternate(), _f.sign_plus(), _f.width(), _f.precision()) };
        Err(fmt::Error)
    }
}
pub(crate) struct Sink;
impl fmt::Write for Sink {
    fn write_str(&mut self, _: &str) -> fmt::Result {
        Ok(())
    }
}
//@ C20 | complete | deciding | feat=full,std | fn=Cc::fmt | timeout=900
#[kani::proof]
#[kani::unwind(9)]
pub(crate) fn cc_debug_display_forwarding() {
    let a = Cc::new(FmtProbe(3));
    let mut s = Sink;
    let r1 = fmt::write(&mut s, format_args!("{:?}", a));
    kani::assert(r1.is_ok() && unsafe { FMT_CALLS } == (3, 0), "Cc::fmt::post::debug_forwards_to_T_once");
    let r2 = fmt::write(&mut s, format_args!("{}", a));
    kani::assert(r2.is_err() && unsafe { FMT_CALLS } == (3, 3), "Cc::fmt::post::display_forwards_to_T_once_and_returns_its_result");
    kani::assert(unsafe { FMT_SPEC } == (false, false, None, None), "Cc::fmt::post::display_passes_the_callers_format_spec_to_T");
    // "behave exactly as on T": the caller's format spec (flags, width, precision) reaches T's impl unchanged
    let r3 = fmt::write(&mut s, format_args!("{:+#8.2}", a));
    kani::assert(r3.is_err() && unsafe { FMT_CALLS } == (3, 6), "Cc::fmt::post::display_forwards_to_T_once_and_returns_its_result");
    kani::assert(unsafe { FMT_SPEC } == (true, true, Some(8), Some(2)), "Cc::fmt::post::display_passes_the_callers_format_spec_to_T");
    let r4 = fmt::write(&mut s, format_args!("{:#5?}", a));
    kani::assert(r4.is_ok() && unsafe { FMT_CALLS } == (6, 6), "Cc::fmt::post::debug_forwards_to_T_once");
    kani::assert(unsafe { FMT_SPEC } == (true, false, Some(5), None), "Cc::fmt::post::debug_passes_the_callers_format_spec_to_T");
    core::mem::forget(a);
}

// ------------------------------------------------------------------------------------------------
// payload layout grid (thorough tier): sizes {1, 3, 24, 200} x alignments {1, 2, 8, 64} (4 KiB payloads only in cc_layout_grid_alignment: layout arithmetic without allocation)
// ------------------------------------------------------------------------------------------------
macro_rules! grid_type {
    ($name:ident, $align:literal, $size:literal) => {
        #[repr(align($align))]
        pub(crate) struct $name(pub [u8; $size]);
        unsafe impl Trace for $name {
            fn trace(&self, _: &mut Context<'_>) {}
        }
        impl Finalize for $name {}
    };
}
grid_type!(G1x1, 1, 1);
grid_type!(G1x3, 1, 3);
grid_type!(G1x24, 1, 24);
grid_type!(G1x200, 1, 200);
grid_type!(G2x1, 2, 1);
grid_type!(G2x3, 2, 3);
grid_type!(G2x24, 2, 24);
grid_type!(G8x1, 8, 1);
grid_type!(G8x3, 8, 3);
grid_type!(G8x24, 8, 24);
grid_type!(G8x200, 8, 200);
grid_type!(G64x1, 64, 1);
grid_type!(G64x24, 64, 24);
grid_type!(G64x200, 64, 200);

/// one payload type through its whole life by both release paths: creation layout, value address,
/// last-owner drop and try_unwrap release exactly the creation layout (CBMC's dealloc-size checks),
/// allocated_bytes returns to its starting value
fn grid_case<T: Trace + 'static>(mk: fn() -> T, first_byte: fn(&T) -> u8) {
    let b0 = state(|s| sp::snap(s)).bytes;
    let a = Cc::new(mk());
    kani::assert(a.inner().layout() == Layout::new::<CcBox<T>>(), "CcBox::layout::post::equals_creation_layout");
    kani::assert(layout_ok::<T>(), "CcBox::layout::post::elem_offset_and_box_alignment_honour_T");
    kani::assert(&*a as *const T as usize == raw_of(&a).as_ptr() as usize + elem_offset::<T>() && first_byte(&*a) == 0x5a, "Cc::deref::post::address_is_box_plus_elem_offset");
    kani::assert(state(|s| sp::snap(s)).bytes == b0 + core::mem::size_of::<CcBox<T>>(), "Cc::new::post::allocated_bytes_plus_box_size");
    drop(a);
    kani::assert(state(|s| sp::snap(s)).bytes == b0, "Cc::drop::last_owner::post::allocated_bytes_minus_box_size");
    let b = Cc::new(mk());
    match b.try_unwrap() {
        Ok(v) => {
            kani::assert(first_byte(&v) == 0x5a, "Cc::try_unwrap::post::value_moved_out_unchanged");
            core::mem::forget(v);
        }
        Err(c) => {
            kani::assert(false, "Cc::try_unwrap::post::ok_when_unique_and_idle");
            core::mem::forget(c);
        }
    }
    kani::assert(state(|s| sp::snap(s)).bytes == b0, "Cc::try_unwrap::post::allocated_bytes_minus_box_size");
}
macro_rules! grid_harness {
    ($fname:ident, $($t:ident : $size:literal),*) => {
        //@ C03 C20 C13 | complete | deciding | thorough | feat=full,std | fn=CcBox::layout,Cc::new,Cc::drop,Cc::try_unwrap,cc_alloc,cc_dealloc | timeout=1200
        #[kani::proof]
        #[kani::unwind(9)]
        pub(crate) fn $fname() {
            $( grid_case::<$t>(|| $t([0x5a; $size]), |v| v.0[0]); )*
        }
    };
}
grid_harness!(cc_layout_grid_align_1_2, G1x1: 1, G1x3: 3, G1x24: 24, G1x200: 200, G2x1: 1, G2x3: 3, G2x24: 24);
grid_harness!(cc_layout_grid_align_8_64, G8x1: 1, G8x3: 3, G8x24: 24, G8x200: 200, G64x1: 1, G64x24: 24, G64x200: 200);
// alignment 4096: `Page` in cc_layout_grid_alignment (new / layout / deref / last-owner drop); a full life through
// try_unwrap exceeds the solver budget (8 KiB boxes lose CBMC's field sensitivity)
