// Specs, pre-state builders and contract harnesses for src/cc.rs (child module => private items
// such as CcBox::new, Cc.inner, CcBox.metadata are visible).
#![allow(dead_code, unused_imports, unused_variables)]
use super::*;
use crate::counter_marker::verif_proofs as cmp;
use crate::lists::verif_proofs as lp;
use crate::state::verif_proofs as sp;
use crate::verif::ghost::{self, g};
use crate::verif::probes::*;

pub(crate) type P = NonNull<CcBox<()>>;

// ------------------------------------------------------------------------------------------------
// header access helpers (used by the harnesses of every file)
// ------------------------------------------------------------------------------------------------
pub(crate) fn new_box<T: Trace + 'static>(t: T) -> NonNull<CcBox<T>> {
    state(|s| CcBox::new(t, s))
}
pub(crate) fn raw_of<T: ?Sized + Trace>(cc: &Cc<T>) -> P {
    cc.inner.cast()
}
pub(crate) fn cc_from_raw<T: Trace + 'static>(p: NonNull<CcBox<T>>) -> Cc<T> {
    Cc { inner: p, _phantom: PhantomData }
}
pub(crate) fn next_of(p: P) -> Option<P> {
    unsafe { *p.as_ref().get_next() }
}
pub(crate) fn prev_of(p: P) -> Option<P> {
    unsafe { *p.as_ref().get_prev() }
}
pub(crate) fn set_links(p: P, next: Option<P>, prev: Option<P>) {
    unsafe {
        *p.as_ref().get_next() = next;
        *p.as_ref().get_prev() = prev;
    }
}
pub(crate) fn words_of(p: P) -> (u16, u16) {
    cmp::words(unsafe { p.as_ref() }.counter_marker())
}
pub(crate) fn set_words_of(p: P, tracing: u16, counter: u16) {
    cmp::set_words(unsafe { p.as_ref() }.counter_marker(), tracing, counter);
}
pub(crate) fn cm_of<'a>(p: P) -> &'a CounterMarker {
    unsafe { p.as_ref() }.counter_marker()
}
/// mark bits (0 NonMarked, 1 PossibleCycles, 2 InList, 3 InQueue)
pub(crate) fn mark_of(p: P) -> u16 {
    words_of(p).0 >> 14
}
pub(crate) fn tracing_of(p: P) -> u16 {
    words_of(p).0 & 0x3fff
}
pub(crate) fn count_of(p: P) -> u16 {
    words_of(p).1 & 0x3fff
}
pub(crate) fn size_of_box<T: Trace + 'static>() -> usize {
    core::mem::size_of::<CcBox<T>>()
}
pub(crate) fn elem_addr<T: Trace + 'static>(p: NonNull<CcBox<T>>) -> usize {
    unsafe { p.as_ref() }.get_elem() as *const T as usize
}
pub(crate) fn elem_offset<T: Trace + 'static>() -> usize {
    core::mem::offset_of!(CcBox<T>, elem)
}
