// Verifier-only ghost state.  Single-threaded (Kani has no threads): plain `static mut`.

pub(crate) const MAX_OBJ: usize = 4;

/// What a probe callback does besides its bookkeeping (enumerated by the driver, never symbolic).
#[derive(Clone, Copy, PartialEq, Eq)]
pub(crate) enum Act {
    Nothing,
    /// "panic": set the emulated-unwinding flag (A-UNWIND) and return
    Fault,
    /// store a clone of slot 0 / of self (via SELF handle table) into the harness-held global
    ResurrectSelf,
    ResurrectNeighbour,
    /// upgrade WEAKS[target] and store the result into the harness-held global
    UpgradeStore,
    /// upgrade WEAKS[target]; record whether it succeeded; drop the result at once
    UpgradeProbe,
    /// call collect_cycles() from inside the callback
    Collect,
    /// allocate a fresh leaf Cc and drop it at once
    Alloc,
    /// clear (drop) traced slot 0 of self
    ClearSlot0,
    /// enable automatic collection, then allocate: with the byte count above the threshold `Cc::new` itself starts a collection
    AllocAuto,
    /// drop the program-held handle HELD[target] (the finalizer releases the last outside pointer to another structure)
    ReleaseHeld,
    /// store a clone of self into self's own traced slot 1 (resurrection into an unreachable cycle)
    ResurrectIntoSelf,
}

pub(crate) struct Ghost {
    /// callback actions are consulted only when a harness armed them (keeps symbolic execution of the
    /// probe callbacks trivial on infeasible paths where the payload bytes are arbitrary)
    pub actions_on: bool,
    pub trace_calls: [u16; MAX_OBJ],
    pub finalize_calls: [u16; MAX_OBJ],
    pub drop_calls: [u16; MAX_OBJ],
    /// callback-site observations (C12): number of trace calls seen with is_tracing()==false, etc.
    pub trace_not_tracing: u16,
    pub fin_while_tracing: u16,
    pub drop_while_tracing: u16,
    /// finalize ran on an object whose destructor had already run / drop ran twice (C03/C05)
    pub fin_after_drop: u16,
    pub double_drop: u16,
    /// a finalizer observed a neighbour already dropped (C05 "before any drop of the same set")
    pub fin_saw_dropped_neighbour: u16,
    /// global callback sequence number and the sequence numbers of first finalize/drop per object
    pub seq: u16,
    pub first_fin_seq: [u16; MAX_OBJ],
    pub first_drop_seq: [u16; MAX_OBJ],
    /// total number of callbacks of each kind, for fault indexing (k-th trace/finalize/drop call)
    pub n_trace: u16,
    pub n_fin: u16,
    pub n_drop: u16,
    /// fault injection: kind (0 none, 1 trace, 2 finalize, 3 drop) and 1-based index k
    pub fault_kind: u8,
    pub fault_k: u16,
    pub fault_fired: bool,
    /// A-UNWIND: number of emulated panics started / caught by the harness' emulated catch_unwind
    pub panics: u16,
    pub caught: u16,
    /// H5: when set by a harness, the crate's own counter-limit panics are emulated (flag + return)
    /// instead of aborting the path, so the state AFTER unwinding out of them can be specified
    pub emulate_limit_panics: bool,
    pub upgrade_gave_dropped: u16,
    pub new_in_finalizer_not_marked_finalized: u16,
    pub trace_after_drop: u16,
    pub fin_without_feature: u16,
    pub canary_broken: u16,
    /// per-object actions
    pub fin_act: [Act; MAX_OBJ],
    pub drop_act: [Act; MAX_OBJ],
    pub act_target: [u8; MAX_OBJ],
    /// results of UpgradeProbe actions: 0 = not run, 1 = None, 2 = Some
    pub upgrade_result: [u8; MAX_OBJ],
    /// is_tracing / flags as seen by the latest finalize / drop callback
    pub collect_calls_in_cb: u16,
    /// collector flags seen by the latest finalize / drop callback (bit0 collecting, bit1 finalizing, bit2 dropping)
    pub fin_flags: u8,
    pub drop_flags: u8,
    /// finalize callback entered while the object's finalized bit was still clear (C05: flag first)
    pub fin_bit_unset_in_cb: u16,
    /// destructor entered while the object was not yet marked dropped (C08, weak-ptrs only)
    pub drop_not_marked_dropped: u16,
    /// strong count / mark seen by the latest finalize and drop callback of each object
    pub fin_seen_count: [u16; MAX_OBJ],
    pub drop_seen_count: [u16; MAX_OBJ],
}

pub(crate) static mut G: Ghost = Ghost::new();

impl Ghost {
    pub(crate) const fn new() -> Ghost {
        Ghost {
            actions_on: false,
            trace_calls: [0; MAX_OBJ],
            finalize_calls: [0; MAX_OBJ],
            drop_calls: [0; MAX_OBJ],
            trace_not_tracing: 0,
            fin_while_tracing: 0,
            drop_while_tracing: 0,
            fin_after_drop: 0,
            double_drop: 0,
            fin_saw_dropped_neighbour: 0,
            seq: 0,
            first_fin_seq: [0; MAX_OBJ],
            first_drop_seq: [0; MAX_OBJ],
            n_trace: 0,
            n_fin: 0,
            n_drop: 0,
            fault_kind: 0,
            fault_k: 0,
            fault_fired: false,
            panics: 0,
            caught: 0,
            emulate_limit_panics: false,
            upgrade_gave_dropped: 0,
            new_in_finalizer_not_marked_finalized: 0,
            trace_after_drop: 0,
            fin_without_feature: 0,
            canary_broken: 0,
            fin_act: [Act::Nothing; MAX_OBJ],
            drop_act: [Act::Nothing; MAX_OBJ],
            act_target: [0; MAX_OBJ],
            upgrade_result: [0; MAX_OBJ],
            collect_calls_in_cb: 0,
            fin_flags: 0,
            drop_flags: 0,
            fin_bit_unset_in_cb: 0,
            drop_not_marked_dropped: 0,
            fin_seen_count: [0; MAX_OBJ],
            drop_seen_count: [0; MAX_OBJ],
        }
    }
}

#[inline]
pub(crate) fn g() -> &'static mut Ghost {
    unsafe { &mut G }
}

/// A-UNWIND: is an emulated panic propagating?
#[inline]
pub(crate) fn unwinding() -> bool {
    unsafe { G.panics > G.caught }
}

/// A-UNWIND hook protocol: `let m = unwind_mark(); <call that may run user code>; if unwound(m) { return; }`
#[inline]
pub(crate) fn unwind_mark() -> u16 {
    unsafe { G.panics }
}
#[inline]
pub(crate) fn unwound(mark: u16) -> bool {
    unsafe { G.panics > mark }
}

/// The emulated `catch_unwind`: returns whether a panic was caught.
#[inline]
pub(crate) fn catch() -> bool {
    unsafe {
        let u = G.panics > G.caught;
        G.caught = G.panics;
        u
    }
}

/// H5 hook protocol at the crate's own limit panics:
/// `if limit_panic() { return <poison>; } panic!(..)` — off by default (the real `panic!` runs and ends the path).
#[inline]
pub(crate) fn limit_panic() -> bool {
    unsafe {
        if G.emulate_limit_panics {
            G.panics += 1;
            true
        } else {
            false
        }
    }
}

/// Start an emulated panic (called by probe callbacks at their fault point).
#[inline]
pub(crate) fn start_panic() {
    unsafe {
        G.fault_fired = true;
        G.panics += 1;
    }
}
