// Specs and contract harnesses for src/config.rs (automatic collection policy, C15).
use super::*;
use crate::lists::verif_proofs as lp;
use crate::state::verif_proofs as sp;

/// I8: the byte threshold is 100 * 2^k with k <= 56.
pub(crate) fn thr_ok(t: usize) -> bool {
    t % DEFAULT_BYTES_THRESHOLD == 0 && (t / DEFAULT_BYTES_THRESHOLD).is_power_of_two() && (t / DEFAULT_BYTES_THRESHOLD) <= (1usize << 56)
}

/// Loop invariant of the halving loop in `Config::adjust` (referenced in place, H3).
pub(crate) fn adjust_inv(thr: usize, bytes: usize) -> bool {
    thr_ok(thr) && thr > bytes
}

pub(crate) fn threshold(c: &Config) -> usize {
    c.bytes_threshold
}

fn any_config() -> Config {
    let mut c = Config::new();
    c.bytes_threshold = kani::any();
    c.adjustment_percent = kani::any();
    c.buffered_threshold = NonZeroUsize::new(kani::any());
    c.auto_collect = kani::any();
    c
}

//@ C15 | complete | deciding | feat=full,auto | fn=Config::new,Config::auto_collect,Config::adjustment_percent,Config::buffered_objects_threshold
#[kani::proof]
pub(crate) fn config_new() {
    let c = Config::new();
    kani::assert(c.bytes_threshold == 100, "Config::new::post::threshold_100");
    kani::assert(c.adjustment_percent == 0.1, "Config::new::post::percent_0_1");
    kani::assert(c.buffered_threshold.is_none(), "Config::new::post::no_buffered_threshold");
    kani::assert(c.auto_collect, "Config::new::post::auto_collect_on");
    kani::assert(thr_ok(c.bytes_threshold), "Config::new::post::I8");
    let d = Config::default();
    kani::assert(d.bytes_threshold == 100 && d.auto_collect && d.buffered_threshold.is_none(), "Config::default::post::same_as_new");
    kani::assert(c.auto_collect() && c.adjustment_percent() == 0.1 && c.buffered_objects_threshold().is_none(), "Config::getters");
}

//@ C15 | complete | deciding | feat=full,auto | fn=Config::set_auto_collect,Config::set_buffered_objects_threshold,Config::set_adjustment_percent
#[kani::proof]
pub(crate) fn config_setters_frame() {
    let mut c = any_config();
    kani::assume(!c.adjustment_percent.is_nan());
    let (t, p, b, a) = (c.bytes_threshold, c.adjustment_percent, c.buffered_threshold, c.auto_collect);
    match kani::any::<u8>() % 3 {
        0 => {
            let v: bool = kani::any();
            c.set_auto_collect(v);
            kani::assert(c.auto_collect() == v, "Config::set_auto_collect::post");
            kani::assert(c.bytes_threshold == t && c.adjustment_percent == p && c.buffered_threshold == b, "Config::set_auto_collect::frame");
        }
        1 => {
            let v = NonZeroUsize::new(kani::any());
            c.set_buffered_objects_threshold(v);
            kani::assert(c.buffered_objects_threshold() == v, "Config::set_buffered_objects_threshold::post");
            kani::assert(c.bytes_threshold == t && c.adjustment_percent == p && c.auto_collect == a, "Config::set_buffered_objects_threshold::frame");
        }
        _ => {
            let v: f64 = kani::any();
            kani::assume(v >= 0.0 && v <= 1.0);
            c.set_adjustment_percent(v);
            kani::assert(c.adjustment_percent() == v, "Config::set_adjustment_percent::post");
            kani::assert(c.bytes_threshold == t && c.buffered_threshold == b && c.auto_collect == a, "Config::set_adjustment_percent::frame::threshold_untouched");
        }
    }
}

//@ C15 | complete | deciding | feat=full,auto | fn=Config::set_adjustment_percent | panic=percent must be between 0 and 1
#[kani::proof]
#[kani::should_panic]
pub(crate) fn config_set_percent_rejects_out_of_range() {
    let mut c = Config::new();
    let v: f64 = kani::any();
    kani::assume(!(v >= 0.0 && v <= 1.0)); // includes NaN
    c.set_adjustment_percent(v);
}

/// should_collect == auto && (bytes > threshold || (buffered_threshold = Some(b) && size > b))
//@ C15 | complete | deciding | feat=full,auto | fn=Config::should_collect
#[kani::proof]
pub(crate) fn config_should_collect_formula() {
    let mut c = any_config();
    let s = sp::any_state();
    let pc = PossibleCycles::new();
    let size: usize = kani::any();
    lp::pc_set(&pc, None, size);
    let n = sp::snap(&s);
    let (t, b, a) = (c.bytes_threshold, c.buffered_threshold, c.auto_collect);
    let r = c.should_collect(&s, &pc);
    let expect = a && (n.bytes > t || match b { Some(b) => size > b.get(), None => false });
    kani::assert(r == expect, "Config::should_collect::post::exact_formula");
    kani::assert(c.bytes_threshold == t && c.buffered_threshold == b && c.auto_collect == a, "Config::should_collect::frame::config");
    kani::assert(sp::snap(&s) == n && lp::pc_size(&pc) == size, "Config::should_collect::frame::state_and_buffer");
    core::mem::forget(pc);
}

/// adjust, C15 threshold clauses.  Pre: I8, bytes < 2^62, 0 <= pct <= 1.
/// The doubling `loop` is unwound (<= 58 iterations, unwinding assertion); the halving `while`
/// carries an in-place Kani loop invariant (`adjust_inv`).
//@ C15 | complete | deciding | feat=full_lc,auto_lc | fn=Config::adjust | timeout=1500
#[kani::proof]
#[kani::unwind(60)]
pub(crate) fn config_adjust_contract() {
    let mut c = Config::new();
    let k: u32 = kani::any();
    kani::assume(k <= 56);
    c.bytes_threshold = 100usize << k;
    let pct: f64 = kani::any();
    kani::assume(pct >= 0.0 && pct <= 1.0);
    c.adjustment_percent = pct;
    let s = sp::any_state();
    let bytes = sp::snap(&s).bytes;
    kani::assume(bytes < (1usize << 62));
    let n = sp::snap(&s);
    c.adjust(&s);
    let t = c.bytes_threshold;
    kani::assert(thr_ok(t), "Config::adjust::post::threshold_is_100_times_power_of_two");
    kani::assert(t >= 100, "Config::adjust::post::not_below_initial");
    kani::assert(t > bytes, "Config::adjust::post::strictly_above_allocated_bytes");
    if pct != 0.0 {
        kani::assert((bytes as f64) > (t as f64) * pct || bytes >= t / 2 || t == 100,
            "Config::adjust::post::not_needlessly_high");
    }
    kani::assert(sp::snap(&s) == n, "Config::adjust::frame::state");
    kani::assert(c.adjustment_percent == pct, "Config::adjust::frame::percent");
}
