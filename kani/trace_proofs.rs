// Contract harnesses for the built-in Trace / Finalize impls of src/trace.rs (C17), Kani part:
// per-position probe leaves count trace / finalize calls.  The contract of every container impl is
//     trace(&c, ctx)   ==> each element position is traced exactly once, nothing else is reported
//     finalize(&c)     ==> each element position is finalized exactly once
// Fixed-size types (tuples 1..12, Option, Result, Box, ManuallyDrop, AssertUnwindSafe, RefCell,
// arrays of the listed N) are complete for the listed instantiations; Vec / slice are bounded by length.
// The parametric, length-unbounded statement for Option/Result/array/slice/Vec/tuples is the Verus part
// (lib/verus_trace.py), run by the same check.
use super::*;
use crate::cc::verif_proofs as ccp;
use crate::lists::verif_proofs as lp;
use crate::verif::probes::Node;
use crate::Cc;

pub(crate) const NP: usize = 40;
pub(crate) static mut TRACED: [u8; NP] = [0; NP];
pub(crate) static mut FINALIZED: [u8; NP] = [0; NP];

/// probe leaf with an identity
pub(crate) struct Tick(pub u8);
unsafe impl Trace for Tick {
    fn trace(&self, _: &mut Context<'_>) {
        unsafe { TRACED[self.0 as usize % NP] += 1 };
    }
}
impl Finalize for Tick {
    fn finalize(&self) {
        unsafe { FINALIZED[self.0 as usize % NP] += 1 };
    }
}

struct Lists {
    root: LinkedList,
    non_root: LinkedList,
    queue: LinkedQueue,
}
fn lists() -> Lists {
    Lists { root: lp::ll_from(None), non_root: lp::ll_from(None), queue: lp::q_from(None, None) }
}
fn forget_lists(l: Lists) {
    core::mem::forget(l.root);
    core::mem::forget(l.non_root);
    core::mem::forget(l.queue);
}
/// trace `v` once with a counting context and finalize it once
fn visit<T: Trace + ?Sized>(v: &T) {
    let mut l = lists();
    {
        let mut ctx = Context::new(ContextInner::Counting { root_list: &mut l.root, non_root_list: &mut l.non_root, queue: &mut l.queue });
        v.trace(&mut ctx);
    }
    v.finalize();
    forget_lists(l);
}
/// exactly the positions 0..n were visited exactly once, and nothing else
fn exactly(n: usize) -> (bool, bool) {
    let mut t = true;
    let mut f = true;
    let mut i = 0;
    while i < NP {
        let want = if i < n { 1 } else { 0 };
        unsafe {
            if TRACED[i] != want {
                t = false;
            }
            if FINALIZED[i] != want {
                f = false;
            }
        }
        i += 1;
    }
    (t, f)
}
fn reset() {
    let mut i = 0;
    while i < NP {
        unsafe {
            TRACED[i] = 0;
            FINALIZED[i] = 0;
        }
        i += 1;
    }
}
macro_rules! check {
    ($n:expr, $t:literal, $f:literal) => {{
        let (t, f) = exactly($n);
        kani::assert(t, $t);
        kani::assert(f, $f);
        reset();
    }};
}

//@ C17 | complete | deciding | feat=full,std | fn=Trace::trace,Finalize::finalize | timeout=900
#[kani::proof]
#[kani::unwind(42)]
pub(crate) fn trace_tuples_1_to_12_each_position_once() {
    visit(&(Tick(0),));
    check!(1, "Trace::trace::tuple::post::each_position_traced_exactly_once", "Finalize::finalize::tuple::post::each_position_finalized_exactly_once");
    visit(&(Tick(0), Tick(1)));
    check!(2, "Trace::trace::tuple::post::each_position_traced_exactly_once", "Finalize::finalize::tuple::post::each_position_finalized_exactly_once");
    visit(&(Tick(0), Tick(1), Tick(2)));
    check!(3, "Trace::trace::tuple::post::each_position_traced_exactly_once", "Finalize::finalize::tuple::post::each_position_finalized_exactly_once");
    visit(&(Tick(0), Tick(1), Tick(2), Tick(3)));
    check!(4, "Trace::trace::tuple::post::each_position_traced_exactly_once", "Finalize::finalize::tuple::post::each_position_finalized_exactly_once");
    visit(&(Tick(0), Tick(1), Tick(2), Tick(3), Tick(4)));
    check!(5, "Trace::trace::tuple::post::each_position_traced_exactly_once", "Finalize::finalize::tuple::post::each_position_finalized_exactly_once");
    visit(&(Tick(0), Tick(1), Tick(2), Tick(3), Tick(4), Tick(5)));
    check!(6, "Trace::trace::tuple::post::each_position_traced_exactly_once", "Finalize::finalize::tuple::post::each_position_finalized_exactly_once");
    visit(&(Tick(0), Tick(1), Tick(2), Tick(3), Tick(4), Tick(5), Tick(6)));
    check!(7, "Trace::trace::tuple::post::each_position_traced_exactly_once", "Finalize::finalize::tuple::post::each_position_finalized_exactly_once");
    visit(&(Tick(0), Tick(1), Tick(2), Tick(3), Tick(4), Tick(5), Tick(6), Tick(7)));
    check!(8, "Trace::trace::tuple::post::each_position_traced_exactly_once", "Finalize::finalize::tuple::post::each_position_finalized_exactly_once");
    visit(&(Tick(0), Tick(1), Tick(2), Tick(3), Tick(4), Tick(5), Tick(6), Tick(7), Tick(8)));
    check!(9, "Trace::trace::tuple::post::each_position_traced_exactly_once", "Finalize::finalize::tuple::post::each_position_finalized_exactly_once");
    visit(&(Tick(0), Tick(1), Tick(2), Tick(3), Tick(4), Tick(5), Tick(6), Tick(7), Tick(8), Tick(9)));
    check!(10, "Trace::trace::tuple::post::each_position_traced_exactly_once", "Finalize::finalize::tuple::post::each_position_finalized_exactly_once");
    visit(&(Tick(0), Tick(1), Tick(2), Tick(3), Tick(4), Tick(5), Tick(6), Tick(7), Tick(8), Tick(9), Tick(10)));
    check!(11, "Trace::trace::tuple::post::each_position_traced_exactly_once", "Finalize::finalize::tuple::post::each_position_finalized_exactly_once");
    visit(&(Tick(0), Tick(1), Tick(2), Tick(3), Tick(4), Tick(5), Tick(6), Tick(7), Tick(8), Tick(9), Tick(10), Tick(11)));
    check!(12, "Trace::trace::tuple::post::each_position_traced_exactly_once", "Finalize::finalize::tuple::post::each_position_finalized_exactly_once");
}

//@ C17 | complete | deciding | feat=full,std | fn=Trace::trace,Finalize::finalize | timeout=900
#[kani::proof]
#[kani::unwind(42)]
pub(crate) fn trace_option_result_and_deref_wrappers() {
    visit(&Some(Tick(0)));
    check!(1, "Trace::trace::Option::post::some_traced_once", "Finalize::finalize::Option::post::some_finalized_once");
    visit(&None::<Tick>);
    check!(0, "Trace::trace::Option::post::none_reports_nothing", "Finalize::finalize::Option::post::none_reports_nothing");
    visit(&Ok::<Tick, Tick>(Tick(0)));
    check!(1, "Trace::trace::Result::post::ok_traced_once", "Finalize::finalize::Result::post::ok_finalized_once");
    visit(&Err::<Tick, Tick>(Tick(0)));
    check!(1, "Trace::trace::Result::post::err_traced_once", "Finalize::finalize::Result::post::err_finalized_once");
    visit(&Err::<(Tick, Tick), (Tick, Tick, Tick)>((Tick(0), Tick(1), Tick(2))));
    check!(3, "Trace::trace::Result::post::err_traced_once", "Finalize::finalize::Result::post::err_finalized_once");
    let b = alloc::boxed::Box::new((Tick(0), Tick(1)));
    visit(&b);
    check!(2, "Trace::trace::Box::post::content_traced_once", "Finalize::finalize::Box::post::content_finalized_once");
    core::mem::forget(b);
    let m = core::mem::ManuallyDrop::new(Tick(0));
    visit(&m);
    check!(1, "Trace::trace::ManuallyDrop::post::content_traced_once", "Finalize::finalize::ManuallyDrop::post::content_finalized_once");
    let a = core::panic::AssertUnwindSafe((Tick(0), Some(Tick(1))));
    visit(&a);
    check!(2, "Trace::trace::AssertUnwindSafe::post::content_traced_once", "Finalize::finalize::AssertUnwindSafe::post::content_finalized_once");
}

//@ C17 | complete | deciding | feat=full,std | fn=Trace::trace,Finalize::finalize | timeout=900
#[kani::proof]
#[kani::unwind(42)]
pub(crate) fn trace_refcell_borrowed_and_unborrowed() {
    let c = RefCell::new((Tick(0), Tick(1)));
    visit(&c);
    check!(2, "Trace::trace::RefCell::post::content_traced_once_when_not_borrowed", "Finalize::finalize::RefCell::post::content_finalized_once_when_not_borrowed");
    // mutably borrowed: reports nothing (trace and finalize)
    {
        let g = match c.try_borrow_mut() {
            Ok(g) => g,
            Err(_) => {
                kani::assume(false);
                unreachable!()
            }
        };
        visit(&c);
        check!(0, "Trace::trace::RefCell::post::reports_nothing_while_mutably_borrowed", "Finalize::finalize::RefCell::post::reports_nothing_while_mutably_borrowed");
        core::mem::forget(g);
    }
    // immutably borrowed: trace needs exclusive access => nothing; finalize only reads => once
    let d = RefCell::new(Tick(0));
    {
        let g = match d.try_borrow() {
            Ok(g) => g,
            Err(_) => {
                kani::assume(false);
                unreachable!()
            }
        };
        let mut l = lists();
        {
            let mut ctx = Context::new(ContextInner::Counting { root_list: &mut l.root, non_root_list: &mut l.non_root, queue: &mut l.queue });
            d.trace(&mut ctx);
        }
        forget_lists(l);
        kani::assert(unsafe { TRACED[0] } == 0, "Trace::trace::RefCell::post::reports_nothing_while_borrowed");
        // Finalize takes &self of the content: a live SHARED borrow does not stop the forwarding (exactly once)
        d.finalize();
        kani::assert(unsafe { FINALIZED[0] } == 1, "Finalize::finalize::RefCell::post::content_finalized_once_while_shared_borrowed");
        core::mem::forget(g);
        reset();
    }
}

//@ C17 | bounded: arrays N in {0,1,2,32}; Vec and slice lengths 0,1,4 | deciding | feat=full,std | fn=Trace::trace,Finalize::finalize | timeout=900
#[kani::proof]
#[kani::unwind(42)]
pub(crate) fn trace_arrays_slices_vecs_each_element_once() {
    let a0: [Tick; 0] = [];
    visit(&a0);
    check!(0, "Trace::trace::sequence::post::each_element_traced_exactly_once", "Finalize::finalize::sequence::post::each_element_finalized_exactly_once");
    visit(&[Tick(0)]);
    check!(1, "Trace::trace::sequence::post::each_element_traced_exactly_once", "Finalize::finalize::sequence::post::each_element_finalized_exactly_once");
    visit(&[Tick(0), Tick(1)]);
    check!(2, "Trace::trace::sequence::post::each_element_traced_exactly_once", "Finalize::finalize::sequence::post::each_element_finalized_exactly_once");
    let a32: [Tick; 32] = core::array::from_fn(|i| Tick(i as u8));
    visit(&a32);
    check!(32, "Trace::trace::sequence::post::each_element_traced_exactly_once", "Finalize::finalize::sequence::post::each_element_finalized_exactly_once");
    let s: &[Tick] = &a32[..4];
    visit(s);
    check!(4, "Trace::trace::sequence::post::each_element_traced_exactly_once", "Finalize::finalize::sequence::post::each_element_finalized_exactly_once");
    let e: &[Tick] = &a32[..0];
    visit(e);
    check!(0, "Trace::trace::sequence::post::each_element_traced_exactly_once", "Finalize::finalize::sequence::post::each_element_finalized_exactly_once");
    let mut v: alloc::vec::Vec<Tick> = alloc::vec::Vec::new();
    visit(&v);
    check!(0, "Trace::trace::sequence::post::each_element_traced_exactly_once", "Finalize::finalize::sequence::post::each_element_finalized_exactly_once");
    v.push(Tick(0));
    visit(&v);
    check!(1, "Trace::trace::sequence::post::each_element_traced_exactly_once", "Finalize::finalize::sequence::post::each_element_finalized_exactly_once");
    v.push(Tick(1));
    v.push(Tick(2));
    v.push(Tick(3));
    visit(&v);
    check!(4, "Trace::trace::sequence::post::each_element_traced_exactly_once", "Finalize::finalize::sequence::post::each_element_finalized_exactly_once");
    core::mem::forget(v);
    core::mem::forget(a32);
}

//@ C17 | complete | deciding | feat=full,std | fn=Trace::trace,Finalize::finalize | timeout=900
#[kani::proof]
#[kani::unwind(42)]
pub(crate) fn trace_two_level_nestings() {
    let n1 = Some(alloc::boxed::Box::new((Tick(0), [Tick(1), Tick(2)])));
    visit(&n1);
    check!(3, "Trace::trace::nested::post::each_leaf_traced_exactly_once", "Finalize::finalize::nested::post::each_leaf_finalized_exactly_once");
    core::mem::forget(n1);
    let n2: RefCell<Option<Result<Tick, [Tick; 2]>>> = RefCell::new(Some(Err([Tick(0), Tick(1)])));
    visit(&n2);
    check!(2, "Trace::trace::nested::post::each_leaf_traced_exactly_once", "Finalize::finalize::nested::post::each_leaf_finalized_exactly_once");
    let n3 = (Some(Tick(0)), None::<Tick>, Ok::<Tick, Tick>(Tick(1)), RefCell::new(Tick(2)));
    visit(&n3);
    check!(3, "Trace::trace::nested::post::each_leaf_traced_exactly_once", "Finalize::finalize::nested::post::each_leaf_finalized_exactly_once");
    let n4: [Option<(Tick, Tick)>; 2] = [Some((Tick(0), Tick(1))), None];
    visit(&n4);
    check!(2, "Trace::trace::nested::post::each_leaf_traced_exactly_once", "Finalize::finalize::nested::post::each_leaf_finalized_exactly_once");
}

/// "reports every owned Cc exactly once and nothing else", with REAL Cc elements: the target's tracing
/// counter rises by exactly the number of Cc values the container owns; Weak / PhantomData report nothing.
//@ C17 C01 | complete | deciding | feat=full,std | fn=Trace::trace,Finalize::finalize | timeout=900
#[kani::proof]
#[kani::unwind(42)]
pub(crate) fn trace_containers_of_real_cc_count_each_pointer_once() {
    let h = ccp::mk_node(0);
    let x = ccp::raw_of(&h);
    let c1 = ccp::clone_from_registry(0).unwrap();
    let c2 = ccp::clone_from_registry(0).unwrap();
    let c3 = ccp::clone_from_registry(0).unwrap();
    // x is being counted by a collection: marked InQueue, tracing counter 0, counter 4
    let (_, c0) = ccp::words_of(x);
    ccp::set_words_of(x, 0xc000, c0);
    crate::state::state(|s| crate::state::verif_proofs::set_flags(s, true, false, false));
    let owner = (Some(c1), [Ok::<Cc<Node>, ()>(c2)], RefCell::new(alloc::boxed::Box::new(c3)), core::marker::PhantomData::<Cc<Node>>, 7u8);
    let mut l = lists();
    {
        let mut ctx = Context::new(ContextInner::Counting { root_list: &mut l.root, non_root_list: &mut l.non_root, queue: &mut l.queue });
        owner.trace(&mut ctx);
    }
    kani::assert(ccp::words_of(x) == (0xc000 | 3, c0), "Trace::trace::containers::post::every_owned_cc_counted_exactly_once_nothing_else");
    forget_lists(l);
    core::mem::forget((owner, h));
}

/// Weak, Cleaner and Cleanable never report what they point to.
//@ C17 C08 C10 | complete | deciding | feat=full | fn=Trace::trace,Finalize::finalize,Cleaner::register | timeout=900
#[cfg(feature = "cleaners")]
#[kani::proof]
#[kani::unwind(42)]
pub(crate) fn trace_weak_cleaner_cleanable_report_nothing() {
    let h = ccp::mk_node(0);
    let x = ccp::raw_of(&h);
    let w = h.downgrade();
    let (_, c0) = ccp::words_of(x);
    ccp::set_words_of(x, 0xc000, c0);
    let cleaner = crate::cleaners::Cleaner::new();
    let cleanable = cleaner.register(|| {});
    crate::state::state(|s| crate::state::verif_proofs::set_flags(s, true, false, false));
    let n0 = (crate::verif::ghost::g().n_trace, crate::verif::ghost::g().n_fin);
    let owner = (w, cleaner, cleanable);
    let mut l = lists();
    {
        let mut ctx = Context::new(ContextInner::Counting { root_list: &mut l.root, non_root_list: &mut l.non_root, queue: &mut l.queue });
        owner.trace(&mut ctx);
    }
    owner.finalize();
    kani::assert(ccp::words_of(x) == (0xc000, c0), "Trace::trace::Weak::post::reports_nothing");
    kani::assert(lp::ll_first(&l.root).is_none() && lp::ll_first(&l.non_root).is_none() && lp::q_first(&l.queue).is_none(), "Trace::trace::Cleaner::post::reports_nothing");
    kani::assert((crate::verif::ghost::g().n_trace, crate::verif::ghost::g().n_fin) == n0, "Trace::trace::Weak::post::reports_nothing");
    forget_lists(l);
    crate::state::state(|s| crate::state::verif_proofs::set_flags(s, false, false, false));
    core::mem::forget((owner, h));
}
