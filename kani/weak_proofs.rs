// Specs and contract harnesses for src/weak/mod.rs (Weak, downgrade, new_cyclic) and for the
// weak-aware paths of Cc::try_unwrap / Cc::drop (child module => Weak's private fields visible).
use super::*;
use crate::cc::verif_proofs as ccp;
use crate::cc::verif_proofs::md::{self, M};
use crate::cc::verif_proofs::{count_of, havoc_idle, mk_node, node_of, pc_is, pc_view, raw_of, set_words_of, words_of, build_pc, any_flags_not_tracing, NODE_BOX, P, REG};
use crate::lists::verif_proofs as lp;
use crate::state::verif_proofs as sp;
use crate::state::state;
use crate::verif::ghost::{self, g};
use crate::verif::probes::*;
use alloc::alloc::Layout;

pub(crate) fn weak_from_parts<T: Trace + 'static>(m: Option<M>, p: NonNull<CcBox<T>>) -> Weak<T> {
    Weak { metadata: m, cc: p, _phantom: PhantomData }
}
pub(crate) fn weak_parts<T: Trace + 'static>(w: &Weak<T>) -> (Option<M>, usize) {
    (w.metadata, w.cc.as_ptr() as *const u8 as usize)
}

/// Object 0 with a side record whose weak count is symbolic (0..=32767, accessible); returns (handle, record, count).
fn node_with_record() -> (Cc<Node>, M, u16) {
    let h = mk_node(0);
    let m = h.inner().get_or_init_metadata();
    let k: u16 = kani::any();
    kani::assume(k <= 32767);
    md::set_wword(m, 0x8000 | k);
    (h, m, k)
}

// ------------------------------------------------------------------------------------------------
// get_or_init_metadata / drop_metadata / Cc::weak_count
// ------------------------------------------------------------------------------------------------
//@ C09 C03 | complete | deciding | feat=full,finweak | fn=CcBox::get_or_init_metadata,BoxedMetadata::new,Cc::weak_count,CcBox::layout,CcBox::vtable
#[kani::proof]
#[kani::unwind(9)]
pub(crate) fn weak_get_or_init_metadata_contract() {
    let h = mk_node(0);
    let x = raw_of(&h);
    let (t0, c0) = havoc_idle(x, false);
    let vt0 = md::vtable_data_addr(x);
    let lay0 = h.inner().layout();
    kani::assert(h.weak_count() == 0 && md::md_of(x).is_none(), "Cc::weak_count::post::zero_without_record");
    let m = h.inner().get_or_init_metadata();
    let (t1, c1) = words_of(x);
    kani::assert(c1 == c0 | 0x8000 && t1 == t0, "get_or_init_metadata::post::sets_only_the_record_bit");
    kani::assert(md::md_of(x) == Some(m), "get_or_init_metadata::post::header_points_to_record");
    kani::assert(md::wword(m) == 0x8000, "get_or_init_metadata::post::weak_count_zero_accessible");
    kani::assert(md::record_vtable_data_addr(m) == vt0 && md::vtable_data_addr(x) == vt0, "get_or_init_metadata::post::vtable_copied");
    kani::assert(h.inner().layout() == lay0 && lay0 == Layout::new::<CcBox<Node>>(), "CcBox::layout::post::equals_creation_layout_with_record");
    // idempotent
    let k: u16 = kani::any();
    kani::assume(k <= 32767);
    md::set_wword(m, 0x8000 | k);
    let m2 = h.inner().get_or_init_metadata();
    kani::assert(m2 == m && md::wword(m) == 0x8000 | k && words_of(x) == (t1, c1), "get_or_init_metadata::post::idempotent_reuses_record");
    kani::assert(h.weak_count() == k as u32, "Cc::weak_count::post::reads_record_count");
    core::mem::forget(h);
}

//@ C09 C03 | complete | deciding | feat=full,finweak | fn=CcBox::drop_metadata
#[kani::proof]
#[kani::unwind(9)]
pub(crate) fn weak_drop_metadata_contract_kept() {
    let (h, m, k) = node_with_record();
    kani::assume(k >= 1);
    let x = raw_of(&h);
    let w0 = words_of(x);
    h.inner().drop_metadata();
    kani::assert(md::wword(m) == k, "drop_metadata::post::record_kept_inaccessible_count_unchanged");
    kani::assert(words_of(x) == w0, "drop_metadata::frame::box_header");
    // no record: nothing happens
    let y = mk_node(1);
    let wy = words_of(raw_of(&y));
    y.inner().drop_metadata();
    kani::assert(words_of(raw_of(&y)) == wy, "drop_metadata::post::noop_without_record");
    core::mem::forget((h, y));
}

//@ C09 C03 | complete | deciding | feat=full | fn=CcBox::drop_metadata | mustfail=expect_freed
#[kani::proof]
#[kani::unwind(9)]
pub(crate) fn weak_drop_metadata_frees_unreferenced_record() {
    let (h, m, k) = node_with_record();
    kani::assume(k == 0);
    h.inner().drop_metadata();
    core::mem::forget(h);
    let _ = crate::utils::verif_proofs::expect_freed(m.as_ptr() as *const u8);
}

// ------------------------------------------------------------------------------------------------
// Weak::strong_count / upgrade / weak_count / new
// ------------------------------------------------------------------------------------------------
/// strong_count over a fully symbolic box header, record word and flag triple (box alive).
//@ C08 C09 | complete | deciding | feat=full,finweak | fn=Weak::strong_count,Weak::weak_count,Weak::weak_counter_marker
#[kani::proof]
#[kani::unwind(9)]
pub(crate) fn weak_strong_count_formula() {
    let h = mk_node(0);
    let x = raw_of(&h);
    let m = h.inner().get_or_init_metadata();
    let ww: u16 = kani::any();
    md::set_wword(m, ww);
    let t: u16 = kani::any();
    let c: u16 = kani::any();
    kani::assume(c & 0x8000 != 0 && (c & 0x3fff) != 0x3fff);
    set_words_of(x, t, c);
    let (fc, ff, fd): (bool, bool, bool) = (kani::any(), kani::any(), kani::any());
    state(|s| sp::set_flags(s, fc, ff, fd));
    let w = weak_from_parts(Some(m), unsafe { REG[0].unwrap() });
    let accessible = ww & 0x8000 != 0;
    let dead = !accessible || (c & 0x3fff) == 0 || (t & 0x3fff) == 0x3fff || ((t >> 15) == 1 && fd);
    let sc = w.strong_count();
    kani::assert(sc == if dead { 0 } else { (c & 0x3fff) as u32 }, "Weak::strong_count::post::zero_iff_dead_else_exact_count");
    kani::assert(w.weak_count() == (ww & 0x7fff) as u32, "Weak::weak_count::post::reads_record_count");
    kani::assert(words_of(x) == (t, c) && md::wword(m) == ww, "Weak::strong_count::frame::pure");
    core::mem::forget((h, w));
}

/// Counting queries stay valid after the box is gone: they only read the record (box really freed here).
//@ C09 C08 | complete | deciding | feat=full,finweak | fn=Weak::strong_count,Weak::weak_count,Weak::upgrade,Weak::drop
#[kani::proof]
#[kani::unwind(9)]
pub(crate) fn weak_queries_after_box_freed() {
    let h = mk_node(0);
    let p = unsafe { REG[0].unwrap() };
    let w = h.downgrade();
    let w2 = w.clone();
    let m = w.metadata.unwrap();
    drop(h); // last owner: box freed, record handed over to the Weaks
    kani::assert(g().n_drop == 1, "Cc::drop::last_owner::post::dropped_exactly_once");
    kani::assert(md::wword(m) == 2, "drop_metadata::post::record_kept_inaccessible_count_unchanged");
    kani::assert(w.strong_count() == 0 && w.weak_count() == 2, "Weak::strong_count::post::zero_after_value_gone");
    kani::assert(w.upgrade().is_none(), "Weak::upgrade::post::none_after_value_gone");
    drop(w2);
    kani::assert(w.weak_count() == 1 && w.strong_count() == 0, "Weak::drop::post::weak_count_minus_one");
    // CBMC's pointer checks flag any access to the freed box in the calls above
    core::mem::forget(w);
}

/// The last Weak frees the record once the box is gone.
//@ C09 C03 | complete | deciding | feat=full | fn=Weak::drop | mustfail=expect_freed
#[kani::proof]
#[kani::unwind(9)]
pub(crate) fn weak_last_weak_frees_record() {
    let h = mk_node(0);
    let w = h.downgrade();
    let m = w.metadata.unwrap();
    drop(h);
    drop(w);
    let _ = crate::utils::verif_proofs::expect_freed(m.as_ptr() as *const u8);
}

//@ C08 C09 | complete | deciding | feat=full,finweak | fn=Weak::new,Weak::strong_count,Weak::weak_count,Weak::upgrade,Weak::clone,Weak::drop
#[kani::proof]
pub(crate) fn weak_new_never_upgrades() {
    let w: Weak<Node> = Weak::new();
    kani::assert(w.strong_count() == 0 && w.weak_count() == 0, "Weak::new::post::counts_zero");
    kani::assert(w.upgrade().is_none(), "Weak::new::post::never_upgrades");
    let w2 = w.clone();
    kani::assert(w2.upgrade().is_none() && Weak::ptr_eq(&w, &w2), "Weak::new::post::clone_never_upgrades");
    drop(w2);
    drop(w);
    kani::assert(state(|s| sp::snap(s)).bytes == 0, "Weak::new::post::no_allocation");
}

/// upgrade = Some iff strong_count > 0; then +1, un-buffers, same allocation, nothing else.
//@ C08 C04 C11 C01 | complete | deciding | feat=full,finweak | fn=Weak::upgrade,Cc::__new_internal,Cc::mark_alive | timeout=900
#[kani::proof]
#[kani::unwind(9)]
pub(crate) fn weak_upgrade_contract_alive() {
    let (h, m, k) = node_with_record();
    kani::assume(k >= 1);
    let y = mk_node(1);
    let z = mk_node(2);
    let (x, py, pz) = (raw_of(&h), raw_of(&y), raw_of(&z));
    let in_pc: bool = kani::any();
    let (arr, n) = build_pc(x, [py, pz], in_pc);
    let (t0, c0) = havoc_idle(x, in_pc);
    kani::assume(c0 & 0x3fff < 16382);
    let (wy, wz) = (words_of(py), words_of(pz));
    let fl = any_flags_not_tracing();
    let sn0 = state(|s| sp::snap(s));
    let w = weak_from_parts(Some(m), unsafe { REG[0].unwrap() });
    kani::assert(w.strong_count() == (c0 & 0x3fff) as u32, "Weak::strong_count::post::equals_cc_count_while_alive");
    let up = w.upgrade();
    kani::assert(up.is_some(), "Weak::upgrade::post::some_while_alive");
    let up = up.unwrap();
    kani::assert(raw_of(&up) == x && Cc::ptr_eq(&up, &h), "Weak::upgrade::post::same_allocation");
    let (t1, c1) = words_of(x);
    kani::assert(c1 & 0x3fff == (c0 & 0x3fff) + 1 && c1 & 0xc000 == c0 & 0xc000, "Weak::upgrade::post::strong_count_plus_one");
    kani::assert(t1 >> 14 == 0 && ccp::next_of(x).is_none() && ccp::prev_of(x).is_none(), "Weak::upgrade::post::not_buffered");
    { let (a, b) = pc_is(&arr, n, Some(x)); kani::assert(a, "Weak::upgrade::post::buffer_is_old_buffer_without_operand"); kani::assert(b, "Weak::upgrade::post::buffered_count_minus_one_iff_was_buffered"); }
    kani::assert(md::wword(m) == 0x8000 | k, "Weak::upgrade::frame::record");
    kani::assert(words_of(py) == wy && words_of(pz) == wz, "Weak::upgrade::frame::other_objects");
    kani::assert(state(|s| sp::snap(s)) == sn0, "Weak::upgrade::frame::collector_state");
    kani::assert(ccp::cb_counts() == (0, 0, 0) && ccp::peek_node(&up).intact(), "Weak::upgrade::frame::no_callback_value_intact");
    core::mem::forget((h, up, y, z, w));
}

/// upgrade = None in every "dead" state of a still-allocated box, and then nothing changes.
//@ C08 C01 C03 | complete | deciding | feat=full,finweak | fn=Weak::upgrade,Weak::strong_count | timeout=900
#[kani::proof]
#[kani::unwind(9)]
pub(crate) fn weak_upgrade_contract_dead() {
    let h = mk_node(0);
    let x = raw_of(&h);
    let m = h.inner().get_or_init_metadata();
    let ww: u16 = kani::any();
    kani::assume(ww & 0x7fff >= 1);
    md::set_wword(m, ww);
    let t: u16 = kani::any();
    let c: u16 = kani::any();
    kani::assume(c & 0x8000 != 0 && (c & 0x3fff) != 0x3fff);
    set_words_of(x, t, c);
    let (fc, ff, fd): (bool, bool, bool) = (kani::any(), kani::any(), kani::any());
    kani::assume(!(fc && !ff && !fd));
    state(|s| sp::set_flags(s, fc, ff, fd));
    let accessible = ww & 0x8000 != 0;
    let dead = !accessible || (c & 0x3fff) == 0 || (t & 0x3fff) == 0x3fff || ((t >> 15) == 1 && fd);
    kani::assume(dead);
    let sn0 = state(|s| sp::snap(s));
    let w = weak_from_parts(Some(m), unsafe { REG[0].unwrap() });
    let up = w.upgrade();
    kani::assert(up.is_none(), "Weak::upgrade::post::none_when_dropped_moved_out_or_being_destroyed");
    kani::assert(words_of(x) == (t, c) && md::wword(m) == ww && state(|s| sp::snap(s)) == sn0, "Weak::upgrade::dead::frame::nothing_changes");
    core::mem::forget((h, w, up));
}

//@ C16 | complete | deciding | feat=full,finweak | fn=Weak::upgrade | panic=Too many references has been created to a single Cc
#[kani::proof]
#[kani::should_panic]
pub(crate) fn weak_upgrade_panics_at_max() {
    let (h, m, k) = node_with_record();
    kani::assume(k >= 1);
    let x = raw_of(&h);
    let (t0, c0) = havoc_idle(x, false);
    kani::assume(c0 & 0x3fff == 16382);
    let w = weak_from_parts(Some(m), unsafe { REG[0].unwrap() });
    let up = w.upgrade();
    core::mem::forget((h, up, w));
}

/// REAL `Weak::upgrade` through the emulated unwind out of its limit panic (H5): nothing changed for the caller.
//@ C16 C08 | complete | deciding | feat=full,finweak | fn=Weak::upgrade | timeout=600
#[kani::proof]
#[kani::unwind(9)]
pub(crate) fn weak_upgrade_at_max_unwinds_leaving_everything() {
    let (h, m, k) = node_with_record();
    kani::assume(k >= 1);
    let x = raw_of(&h);
    let in_pc: bool = kani::any();
    if in_pc { crate::cc::add_to_list(x); }
    let (t0, c0) = havoc_idle(x, in_pc);
    kani::assume(c0 & 0x3fff == 16382);
    let fl = any_flags_not_tracing();
    let sn0 = state(|s| sp::snap(s));
    let w = weak_from_parts(Some(m), unsafe { REG[0].unwrap() });
    g().emulate_limit_panics = true;
    let up = w.upgrade();
    core::mem::forget(up); // poisoned result of the emulated unwind
    g().emulate_limit_panics = false;
    kani::assert(ghost::catch(), "Weak::upgrade::post::panics_at_limit");
    kani::assert(words_of(x) == (t0, c0), "Weak::upgrade::unwind::strong_count_and_flags_unchanged_after_the_caught_panic");
    kani::assert(md::wword(m) == 0x8000 | k, "Weak::upgrade::unwind::weak_count_unchanged");
    kani::assert(pc_view().1 == in_pc as usize && state(|s| sp::snap(s)) == sn0 && ccp::cb_counts() == (0, 0, 0), "Weak::upgrade::unwind::buffer_and_collector_state_unchanged");
    core::mem::forget((h, w));
}

//@ C12 | complete | deciding | feat=full,finweak | fn=Weak::upgrade | panic=Cannot upgrade while tracing!
#[kani::proof]
#[kani::should_panic]
pub(crate) fn weak_upgrade_panics_while_tracing() {
    let (h, m, k) = node_with_record();
    let w = weak_from_parts(Some(m), unsafe { REG[0].unwrap() });
    state(|s| sp::set_flags(s, true, false, false));
    let up = w.upgrade();
    core::mem::forget((h, up, w));
}

// ------------------------------------------------------------------------------------------------
// downgrade / Weak::clone / Weak::drop
// ------------------------------------------------------------------------------------------------
//@ C09 C11 C08 | complete | deciding | feat=full,finweak | fn=Cc::downgrade,Cc::inner_ptr,CcBox::get_or_init_metadata | timeout=900
#[kani::proof]
#[kani::unwind(9)]
pub(crate) fn weak_downgrade_contract() {
    let h = mk_node(0);
    let y = mk_node(1);
    let z = mk_node(2);
    let (x, py, pz) = (raw_of(&h), raw_of(&y), raw_of(&z));
    let has_md: bool = kani::any();
    let mut k: u16 = 0;
    if has_md {
        let m = h.inner().get_or_init_metadata();
        k = kani::any();
        kani::assume(k < 32767);
        md::set_wword(m, 0x8000 | k);
    }
    let in_pc: bool = kani::any();
    let (arr, n) = build_pc(x, [py, pz], in_pc);
    let (t0, c0) = havoc_idle(x, in_pc);
    let fl = any_flags_not_tracing();
    let sn0 = state(|s| sp::snap(s));
    let w = h.downgrade();
    let (t1, c1) = words_of(x);
    let m = md::md_of(x);
    kani::assert(m.is_some() && w.metadata == m, "Cc::downgrade::post::weak_shares_the_record");
    kani::assert(weak_parts(&w).1 == x.as_ptr() as *const u8 as usize, "Cc::downgrade::post::weak_points_to_allocation");
    kani::assert(md::wword(m.unwrap()) == 0x8000 | (k + 1), "Cc::downgrade::post::weak_count_plus_one");
    kani::assert(h.weak_count() == (k + 1) as u32 && w.weak_count() == (k + 1) as u32, "Cc::weak_count::post::reads_record_count");
    kani::assert(c1 == c0 | 0x8000, "Cc::downgrade::frame::strong_count_and_finalized_bit");
    kani::assert(t1 >> 14 == 0 && t1 & 0x3fff == t0 & 0x3fff, "Cc::downgrade::post::not_buffered");
    { let (a, b) = pc_is(&arr, n, Some(x)); kani::assert(a, "Cc::downgrade::post::buffer_is_old_buffer_without_operand"); kani::assert(b, "Cc::downgrade::post::buffered_count_minus_one_iff_was_buffered"); }
    kani::assert(state(|s| sp::snap(s)) == sn0, "Cc::downgrade::frame::collector_state");
    kani::assert(w.strong_count() == (c0 & 0x3fff) as u32, "Weak::strong_count::post::equals_cc_count_while_alive");
    kani::assert(ccp::cb_counts() == (0, 0, 0), "Cc::downgrade::frame::no_callback");
    core::mem::forget((h, y, z, w));
}

//@ C16 | complete | deciding | feat=full,finweak | fn=Cc::downgrade | panic=Too many references has been created to a single Weak
#[kani::proof]
#[kani::should_panic]
pub(crate) fn weak_downgrade_panics_at_max() {
    let (h, m, k) = node_with_record();
    kani::assume(k == 32767);
    let w = h.downgrade();
    core::mem::forget((h, w));
}

/// REAL `Cc::downgrade` / `Weak::clone` through the emulated unwind out of their limit panics (H5): the state
/// the caller sees AFTER catching the panic (every local live at the panic site has been dropped) is unchanged.
//@ C16 C09 | complete | deciding | feat=full,finweak | fn=Cc::downgrade | timeout=600
#[kani::proof]
#[kani::unwind(9)]
pub(crate) fn weak_downgrade_at_max_unwinds_leaving_everything() {
    let (h, m, k) = node_with_record();
    kani::assume(k == 32767);
    let x = raw_of(&h);
    let in_pc: bool = kani::any();
    if in_pc { crate::cc::add_to_list(x); }
    let (t0, c0) = havoc_idle(x, in_pc);
    let fl = any_flags_not_tracing();
    let sn0 = state(|s| sp::snap(s));
    g().emulate_limit_panics = true;
    let w = h.downgrade();
    core::mem::forget(w); // poisoned result of the emulated unwind
    g().emulate_limit_panics = false;
    kani::assert(ghost::catch(), "Cc::downgrade::post::panics_at_limit");
    kani::assert(md::wword(m) == 0x8000 | k, "Cc::downgrade::unwind::weak_count_unchanged_after_the_caught_panic");
    kani::assert(words_of(x) == (t0, c0 | 0x8000), "Cc::downgrade::unwind::strong_count_flags_and_mark_unchanged");
    kani::assert(pc_view().1 == in_pc as usize && state(|s| sp::snap(s)) == sn0 && ccp::cb_counts() == (0, 0, 0), "Cc::downgrade::unwind::buffer_and_collector_state_unchanged");
    core::mem::forget(h);
}

//@ C16 C09 | complete | deciding | feat=full,finweak | fn=Weak::clone | timeout=600
#[kani::proof]
#[kani::unwind(9)]
pub(crate) fn weak_clone_at_max_unwinds_leaving_everything() {
    let (h, m, k) = node_with_record();
    kani::assume(k == 32767);
    let x = raw_of(&h);
    let in_pc: bool = kani::any();
    if in_pc { crate::cc::add_to_list(x); }
    let (t0, c0) = havoc_idle(x, in_pc);
    let fl = any_flags_not_tracing();
    let sn0 = state(|s| sp::snap(s));
    let w = weak_from_parts(Some(m), unsafe { REG[0].unwrap() });
    g().emulate_limit_panics = true;
    let w2 = w.clone();
    core::mem::forget(w2); // poisoned result of the emulated unwind
    g().emulate_limit_panics = false;
    kani::assert(ghost::catch(), "Weak::clone::post::panics_at_limit");
    kani::assert(md::wword(m) == 0x8000 | k, "Weak::clone::unwind::weak_count_unchanged_after_the_caught_panic");
    kani::assert(words_of(x) == (t0, c0), "Weak::clone::unwind::box_counters_unchanged");
    kani::assert(pc_view().1 == in_pc as usize && state(|s| sp::snap(s)) == sn0 && ccp::cb_counts() == (0, 0, 0), "Weak::clone::unwind::buffer_and_collector_state_unchanged");
    core::mem::forget((h, w));
}

//@ C09 C08 | complete | deciding | feat=full,finweak | fn=Weak::clone,Weak::drop,Weak::ptr_eq | timeout=900
#[kani::proof]
#[kani::unwind(9)]
pub(crate) fn weak_clone_drop_contract() {
    let (h, m, k) = node_with_record();
    kani::assume(k >= 1 && k < 32767);
    let x = raw_of(&h);
    let in_pc: bool = kani::any();
    if in_pc { crate::cc::add_to_list(x); }
    let (t0, c0) = havoc_idle(x, in_pc);
    let fl = any_flags_not_tracing();
    let sn0 = state(|s| sp::snap(s));
    let w = weak_from_parts(Some(m), unsafe { REG[0].unwrap() });
    let w2 = w.clone();
    kani::assert(md::wword(m) == 0x8000 | (k + 1), "Weak::clone::post::weak_count_plus_one");
    kani::assert(w2.metadata == Some(m) && weak_parts(&w2).1 == weak_parts(&w).1 && Weak::ptr_eq(&w, &w2), "Weak::clone::post::same_allocation");
    kani::assert(words_of(x) == (t0, c0) && pc_view().1 == in_pc as usize, "Weak::clone::frame::box_counters_and_buffer");
    drop(w2);
    kani::assert(md::wword(m) == 0x8000 | k, "Weak::drop::post::weak_count_minus_one");
    kani::assert(words_of(x) == (t0, c0) && pc_view().1 == in_pc as usize, "Weak::drop::frame::box_counters_and_buffer");
    kani::assert(state(|s| sp::snap(s)) == sn0 && ccp::cb_counts() == (0, 0, 0), "Weak::drop::frame::collector_state_no_callback");
    core::mem::forget((h, w));
}

//@ C16 | complete | deciding | feat=full,finweak | fn=Weak::clone | panic=Too many references has been created to a single Weak
#[kani::proof]
#[kani::should_panic]
pub(crate) fn weak_clone_panics_at_max() {
    let (h, m, k) = node_with_record();
    kani::assume(k == 32767);
    let w = weak_from_parts(Some(m), unsafe { REG[0].unwrap() });
    let w2 = w.clone();
    core::mem::forget((h, w, w2));
}

/// The last Weak of a LIVE object leaves the record in place (accessible); re-downgrading reuses it.
//@ C09 | complete | deciding | feat=full,finweak | fn=Weak::drop,Cc::downgrade
#[kani::proof]
#[kani::unwind(9)]
pub(crate) fn weak_redowngrade_reuses_record() {
    let h = mk_node(0);
    let x = raw_of(&h);
    let w = h.downgrade();
    let m = w.metadata.unwrap();
    drop(w);
    kani::assert(md::wword(m) == 0x8000 && md::md_of(x) == Some(m), "Weak::drop::post::record_kept_while_box_alive");
    kani::assert(h.weak_count() == 0, "Cc::weak_count::post::reads_record_count");
    let w2 = h.downgrade();
    kani::assert(w2.metadata == Some(m) && md::wword(m) == 0x8001, "Cc::downgrade::post::reuses_record_after_count_returned_to_zero");
    kani::assert(w2.upgrade().map(|c| { let same = raw_of(&c) == x; core::mem::forget(c); same }) == Some(true), "Weak::upgrade::post::same_allocation");
    core::mem::forget((h, w2));
}

// ------------------------------------------------------------------------------------------------
// Cc::try_unwrap (C13) — written here because the Weak / side-record clauses need this module's view
// ------------------------------------------------------------------------------------------------
/// Ok branch.  Control (with/without side record, buffered or not, finalized or not) is enumerated
/// concretely inside the harness — a symbolic choice here makes try_unwrap's internal `Result<Option<T>>`
/// discriminant symbolic and CBMC then runs T's drop glue on arbitrary bytes; the stale tracing counter
/// and the weak count stay symbolic.
fn try_unwrap_ok_case(has_md: bool, in_pc: bool, fin: bool, kk: u16) {
    let h = mk_node(0);
    let y = mk_node(1);
    let (x, py) = (raw_of(&h), raw_of(&y));
    let mut k: u16 = 0;
    let mut m: Option<M> = None;
    if has_md {
        let mm = h.inner().get_or_init_metadata();
        md::normalise_record_ptr(unsafe { REG[0].unwrap() }, mm);
        k = kk; // >= 1 (k == 0: record freed, see cc_try_unwrap_frees_unreferenced_record); concrete: drop_metadata branches on it
        md::set_wword(mm, 0x8000 | k);
        m = Some(mm);
    }
    // y is buffered next to x
    crate::cc::add_to_list(py);
    if in_pc {
        crate::cc::add_to_list(x);
    }
    let stale: u16 = kani::any();
    kani::assume(stale < 0x3fff);
    let t0 = if in_pc { 0x4000 } else { stale };
    let c0 = (words_of(x).1 & 0x8000) | if fin { 0x4000 } else { 0 } | 1;
    set_words_of(x, t0, c0);
    let wy = words_of(py);
    let size0 = pc_view().1;
    let sn0 = state(|s| sp::snap(s));
    let w = weak_from_parts(m, unsafe { REG[0].unwrap() });
    let n0 = ccp::cb_counts();
    let r = h.try_unwrap();
    kani::assert(r.is_ok(), "Cc::try_unwrap::post::ok_when_unique_and_idle");
    match r {
        Ok(v) => {
            kani::assert(v.id == 0 && v.intact(), "Cc::try_unwrap::post::value_moved_out_unchanged");
            core::mem::forget(v);
        }
        Err(c) => core::mem::forget(c),
    }
    kani::assert(ccp::cb_counts() == n0, "Cc::try_unwrap::post::no_finalizer_no_destructor_no_trace");
    let sn1 = state(|s| sp::snap(s));
    kani::assert(sn1.bytes == sn0.bytes - NODE_BOX, "Cc::try_unwrap::post::allocated_bytes_minus_box_size");
    kani::assert(sp::Snap { bytes: sn0.bytes, ..sn1 } == sn0, "Cc::try_unwrap::frame::collector_state");
    let (sq, size1) = pc_view();
    kani::assert(sq.wf && sq.len == size1 && !lp::contains(&sq, x) && lp::contains(&sq, py), "Cc::try_unwrap::post::leaves_the_buffer");
    kani::assert(size1 == size0 - in_pc as usize, "Cc::try_unwrap::post::buffered_count_minus_one_iff_was_buffered");
    kani::assert(words_of(py) == wy, "Cc::try_unwrap::frame::other_objects");
    if has_md {
        kani::assert(md::wword(m.unwrap()) == k, "Cc::try_unwrap::post::record_handed_over_inaccessible_count_kept");
        kani::assert(w.strong_count() == 0 && w.upgrade().is_none(), "Cc::try_unwrap::post::weak_stops_upgrading");
        kani::assert(w.weak_count() == k as u32, "Weak::weak_count::post::reads_record_count");
    }
    // leave the buffer empty for the next case
    crate::cc::remove_from_list(py);
    core::mem::forget((y, w));
}
//@ C13 C09 C11 C03 | complete | deciding | feat=full,finweak | fn=Cc::try_unwrap,remove_from_list,CcBox::layout,CcBox::drop_metadata,cc_dealloc | timeout=900
#[kani::proof]
#[kani::unwind(9)]
pub(crate) fn cc_try_unwrap_ok_contract() {
    try_unwrap_ok_case(false, false, false, 0);
    try_unwrap_ok_case(false, true, true, 0);
    try_unwrap_ok_case(true, false, true, 1);
    try_unwrap_ok_case(true, true, false, 32767);
}
//@ C13 C09 C11 C03 | complete | deciding | thorough | feat=full,finweak | fn=Cc::try_unwrap | timeout=900
#[kani::proof]
#[kani::unwind(9)]
pub(crate) fn cc_try_unwrap_ok_contract_other_half() {
    try_unwrap_ok_case(false, false, true, 0);
    try_unwrap_ok_case(false, true, false, 0);
    try_unwrap_ok_case(true, false, false, 32767);
    try_unwrap_ok_case(true, true, true, 2);
}

/// ... the box is really released (CBMC must flag the read) and with the creation layout (CBMC's
/// dealloc-size check inside the call above / here).
//@ C13 C03 | complete | deciding | feat=full | fn=Cc::try_unwrap | mustfail=expect_freed | timeout=600
#[kani::proof]
#[kani::unwind(9)]
pub(crate) fn cc_try_unwrap_releases_box() {
    let h = mk_node(0);
    let x = raw_of(&h);
    let with_weak: bool = kani::any();
    let w = if with_weak { Some(h.downgrade()) } else { None };
    let r = h.try_unwrap();
    match r {
        Ok(v) => core::mem::forget(v),
        Err(c) => core::mem::forget(c),
    }
    core::mem::forget(w);
    let _ = crate::utils::verif_proofs::expect_freed(x.as_ptr() as *const u8);
}

/// ... and a side record no Weak refers to any more is released too, exactly here.
//@ C13 C09 C03 | complete | deciding | feat=full | fn=Cc::try_unwrap,CcBox::drop_metadata | mustfail=expect_freed | timeout=600
#[kani::proof]
#[kani::unwind(9)]
pub(crate) fn cc_try_unwrap_frees_unreferenced_record() {
    let h = mk_node(0);
    let w = h.downgrade();
    let m = w.metadata.unwrap();
    drop(w); // weak count back to 0, record stays with the box
    let in_pc: bool = kani::any();
    if in_pc {
        crate::cc::add_to_list(raw_of(&h));
    }
    let r = h.try_unwrap();
    kani::assert(r.is_ok(), "Cc::try_unwrap::post::ok_when_unique_and_idle");
    match r {
        Ok(v) => core::mem::forget(v),
        Err(c) => core::mem::forget(c),
    }
    kani::assert(state(|s| sp::snap(s)).bytes == 0, "Cc::try_unwrap::post::allocated_bytes_minus_box_size");
    let _ = crate::utils::verif_proofs::expect_freed(m.as_ptr() as *const u8);
}

/// Err branch: more than one pointer, or any collector flag set: the very same pointer comes back and
/// counts, buffering, finalization state, side record and collector state are unchanged.
/// (count class and flag triple enumerated concretely, see try_unwrap_ok_case.)
fn try_unwrap_err_case(cnt: u16, fc: bool, ff: bool, fd: bool, has_md: bool, in_pc: bool) {
    let h = mk_node(0);
    let x = raw_of(&h);
    let mut mm: Option<M> = None;
    let ww: u16 = kani::any::<u16>() | 0x8000;
    if has_md {
        let m = h.inner().get_or_init_metadata();
        md::normalise_record_ptr(unsafe { REG[0].unwrap() }, m);
        md::set_wword(m, ww);
        mm = Some(m);
    }
    if in_pc {
        crate::cc::add_to_list(x);
    }
    let stale: u16 = kani::any();
    kani::assume(stale < 0x3fff);
    let t0 = if in_pc { 0x4000 } else { stale };
    let fin = in_pc != has_md; // concrete (the uniqueness test reads this word)
    let c0 = (words_of(x).1 & 0x8000) | if fin { 0x4000 } else { 0 } | cnt;
    set_words_of(x, t0, c0);
    state(|s| sp::set_flags(s, fc, ff, fd));
    let sn0 = state(|s| sp::snap(s));
    let n0 = ccp::cb_counts();
    let r = h.try_unwrap();
    kani::assert(r.is_err(), "Cc::try_unwrap::post::err_when_shared_or_inside_collection_finalizer_destructor");
    match r {
        Err(c) => {
            kani::assert(raw_of(&c) == x, "Cc::try_unwrap::post::err_returns_the_same_pointer");
            core::mem::forget(c);
        }
        Ok(v) => core::mem::forget(v),
    }
    kani::assert(words_of(x) == (t0, c0), "Cc::try_unwrap::err::frame::counts_mark_and_finalized_bit");
    let (sq, size) = pc_view();
    kani::assert(sq.wf && size == in_pc as usize && sq.len == size && lp::contains(&sq, x) == in_pc, "Cc::try_unwrap::err::frame::buffer");
    if let Some(m) = mm {
        kani::assert(md::wword(m) == ww, "Cc::try_unwrap::err::frame::side_record");
    }
    kani::assert(state(|s| sp::snap(s)) == sn0, "Cc::try_unwrap::err::frame::collector_state");
    kani::assert(ccp::cb_counts() == n0 && ccp::node_of(unsafe { REG[0].unwrap() }).intact(), "Cc::try_unwrap::err::frame::value_and_no_callback");
    state(|s| sp::set_flags(s, false, false, false));
    crate::cc::remove_from_list(x);
}
//@ C08 C13 C12 | complete | deciding | feat=full,finweak | fn=Cc::try_unwrap | timeout=900
#[kani::proof]
#[kani::unwind(9)]
pub(crate) fn cc_try_unwrap_err_contract() {
    // shared pointer, collector idle
    try_unwrap_err_case(2, false, false, false, false, true);
    try_unwrap_err_case(16382, false, false, false, true, false);
    // unique pointer, but inside a collection / finalizer / destructor (every flag combination)
    try_unwrap_err_case(1, true, false, false, false, false);
    try_unwrap_err_case(1, false, false, true, true, true);
    try_unwrap_err_case(1, true, false, true, false, true);
    #[cfg(feature = "finalization")]
    {
        try_unwrap_err_case(1, false, true, false, true, false);
        try_unwrap_err_case(1, true, true, false, false, true);
        try_unwrap_err_case(1, false, true, true, false, false);
        try_unwrap_err_case(1, true, true, true, true, true);
    }
}

/// finalize_again: panics iff any collector flag is set (object unchanged), otherwise clears only
/// the finalized bit.
//@ C12 C05 | complete | deciding | feat=full,finweak | fn=Cc::finalize_again,Cc::already_finalized | timeout=600
#[cfg(feature = "finalization")]
#[kani::proof]
#[kani::unwind(9)]
pub(crate) fn cc_finalize_again_idle_contract() {
    let mut h = mk_node(0);
    let x = raw_of(&h);
    let in_pc: bool = kani::any();
    if in_pc {
        crate::cc::add_to_list(x);
    }
    let (t0, c0) = havoc_idle(x, in_pc);
    kani::assert(h.already_finalized() == (c0 & 0x4000 != 0), "Cc::already_finalized::post::reads_flag");
    h.finalize_again();
    kani::assert(words_of(x) == (t0, c0 & !0x4000), "Cc::finalize_again::post::clears_only_the_finalized_bit");
    kani::assert(!h.already_finalized(), "Cc::finalize_again::post::finalizable_again");
    kani::assert(pc_view().1 == in_pc as usize && ccp::cb_counts() == (0, 0, 0), "Cc::finalize_again::frame::buffer_no_callback");
    core::mem::forget(h);
}
//@ C12 C05 | complete | deciding | feat=full,finweak | fn=Cc::finalize_again | panic=Cc::finalize_again cannot be called while collecting | timeout=600
#[cfg(feature = "finalization")]
#[kani::proof]
#[kani::should_panic]
#[kani::unwind(9)]
pub(crate) fn cc_finalize_again_panics_inside_collection_finalizer_destructor() {
    let mut h = mk_node(0);
    let (fc, ff, fd): (bool, bool, bool) = (kani::any(), kani::any(), kani::any());
    kani::assume(fc || ff || fd);
    state(|s| sp::set_flags(s, fc, ff, fd));
    h.finalize_again();
    core::mem::forget(h);
}

/// REAL `finalize_again` under any collector flag, through the emulated unwind out of its panic (H5):
/// the object (both words: finalized bit, counts, mark), the buffer and the collector flags are unchanged.
//@ C12 C05 | complete | deciding | feat=full,finweak | fn=Cc::finalize_again | timeout=600
#[cfg(feature = "finalization")]
#[kani::proof]
#[kani::unwind(9)]
pub(crate) fn cc_finalize_again_refused_leaves_object_unchanged() {
    let mut h = mk_node(0);
    let x = raw_of(&h);
    let in_pc: bool = kani::any();
    if in_pc { crate::cc::add_to_list(x); }
    let (t0, c0) = havoc_idle(x, in_pc);
    let (fc, ff, fd): (bool, bool, bool) = (kani::any(), kani::any(), kani::any());
    kani::assume(fc || ff || fd);
    state(|s| sp::set_flags(s, fc, ff, fd));
    let sn0 = state(|s| sp::snap(s));
    g().emulate_limit_panics = true;
    h.finalize_again();
    g().emulate_limit_panics = false;
    kani::assert(ghost::catch(), "Cc::finalize_again::post::panics_inside_collection_finalizer_destructor");
    kani::assert(words_of(x) == (t0, c0), "Cc::finalize_again::unwind::object_unchanged_after_the_caught_panic");
    kani::assert(pc_view().1 == in_pc as usize && state(|s| sp::snap(s)) == sn0 && ccp::cb_counts() == (0, 0, 0), "Cc::finalize_again::unwind::buffer_and_collector_state_unchanged");
    core::mem::forget(h);
}

// ------------------------------------------------------------------------------------------------
// Cc::new_cyclic (C14), normal path
// ------------------------------------------------------------------------------------------------
#[allow(static_mut_refs)]
static mut SAVED: Option<Weak<Node>> = None;
#[allow(static_mut_refs)]
static mut CYC_OBS: (u32, bool, u32, u8) = (99, false, 99, 0);

/// Inside the closure the Weak is dead (strong_count 0, upgrade None, weak_count 1); afterwards the
/// returned Cc has strong_count 1, clones saved by the closure upgrade to it; no T is dropped.
//@ C14 C09 C08 C03 | complete | deciding | feat=full,finweak | fn=Cc::new_cyclic,NewCyclicWrapper::new,CcBox::get_or_init_metadata,Weak::drop | timeout=900
#[kani::proof]
#[kani::unwind(9)]
#[allow(static_mut_refs)]
pub(crate) fn weak_new_cyclic_contract() {
    #[cfg(feature = "auto-collect")]
    let _ = crate::config::config(|c| c.set_auto_collect(false));
    let b0 = state(|s| sp::snap(s)).bytes;
    let cc: Cc<Node> = Cc::new_cyclic(|w: &Weak<Node>| {
        let up = w.upgrade();
        unsafe {
            CYC_OBS = (w.strong_count(), up.is_none(), w.weak_count(), flags_now());
            SAVED = Some(w.clone());
        }
        core::mem::forget(up);
        Node::new(0)
    });
    let obs = unsafe { CYC_OBS };
    kani::assert(obs.0 == 0, "Cc::new_cyclic::post::strong_count_zero_inside_closure");
    kani::assert(obs.1, "Cc::new_cyclic::post::upgrade_none_inside_closure");
    kani::assert(obs.2 == 1, "Cc::new_cyclic::post::weak_count_one_inside_closure");
    kani::assert(obs.3 == 0, "Cc::new_cyclic::post::closure_runs_outside_collector_phases");
    let x = raw_of(&cc);
    kani::assert(cc.strong_count() == 1 && count_of(x) == 1, "Cc::new_cyclic::post::strong_count_one_after_return");
    kani::assert(cc.weak_count() == 1, "Cc::new_cyclic::post::only_saved_clones_remain");
    kani::assert(ccp::peek_node(&cc).id == 0 && ccp::peek_node(&cc).intact(), "Cc::new_cyclic::post::value_stored");
    kani::assert(ccp::cb_counts() == (0, 0, 0), "Cc::new_cyclic::post::no_value_dropped_finalized_or_traced");
    kani::assert(state(|s| sp::snap(s)).bytes == b0 + NODE_BOX, "Cc::new_cyclic::post::allocated_bytes_plus_box_size");
    kani::assert(cc.inner().layout() == Layout::new::<CcBox<Node>>() && Layout::new::<CcBox<NewCyclicWrapper<Node>>>() == Layout::new::<CcBox<Node>>(), "CcBox::layout::post::equals_creation_layout_through_wrapper");
    kani::assert(ccp::mark_of(x) == 0 && pc_view().1 == 0, "Cc::new_cyclic::post::not_buffered");
    let saved = unsafe { SAVED.take().unwrap() };
    // A-UNION: same bytes, widest union member (see cc_proofs::md::normalise_record_ptr)
    md::normalise_record_ptr(cc.inner_ptr(), saved.metadata.unwrap());
    kani::assert(saved.strong_count() == 1, "Weak::strong_count::post::equals_cc_count_while_alive");
    let up = saved.upgrade();
    kani::assert(up.is_some(), "Cc::new_cyclic::post::saved_clone_upgrades_after_return");
    if let Some(u) = &up {
        kani::assert(Cc::ptr_eq(u, &cc) && cc.strong_count() == 2, "Cc::new_cyclic::post::saved_clone_upgrades_to_returned_allocation");
    }
    drop(up);
    // A-UNION (payload): the value was written through MaybeUninit<T> (a union) and is read back as T;
    // CBMC does not constant-fold the Option discriminants of the three slots across that re-typing.
    // They are PROVED None here (solver), then re-stored as the same value through their own type.
    {
        let n = ccp::peek_node(&cc);
        kani::assert(peek_id(&n.s0).is_none() && peek_id(&n.s1).is_none() && peek_id(&n.hidden).is_none(), "Cc::new_cyclic::post::value_stored");
        unsafe {
            core::ptr::write(&n.s0 as *const _ as *mut core::cell::RefCell<Option<Cc<Node>>>, core::cell::RefCell::new(None));
            core::ptr::write(&n.s1 as *const _ as *mut core::cell::RefCell<Option<Cc<Node>>>, core::cell::RefCell::new(None));
            core::ptr::write(&n.hidden as *const _ as *mut core::cell::RefCell<Option<Cc<Node>>>, core::cell::RefCell::new(None));
        }
    }
    // the object now lives an ordinary life: last owner goes, value dropped once, Weak dead, record freed last
    let m = saved.metadata.unwrap();
    drop(cc);
    kani::assert(g().n_drop == 1 && g().double_drop == 0, "Cc::drop::last_owner::post::dropped_exactly_once");
    kani::assert(state(|s| sp::snap(s)).bytes == b0, "Cc::drop::last_owner::post::allocated_bytes_minus_box_size");
    kani::assert(saved.upgrade().is_none() && saved.strong_count() == 0 && saved.weak_count() == 1, "Weak::upgrade::post::none_after_value_gone");
    kani::assert(md::wword(m) == 1, "drop_metadata::post::record_kept_inaccessible_count_unchanged");
    drop(saved); // frees the record (CBMC checks double free / layout)
}

/// new_cyclic while tracing is refused (debug builds).
//@ C12 C14 | complete | deciding | feat=full,finweak | fn=Cc::new_cyclic | panic=Cannot create a new Cc while tracing!
#[kani::proof]
#[kani::should_panic]
pub(crate) fn weak_new_cyclic_panics_while_tracing() {
    state(|s| sp::set_flags(s, true, false, false));
    let cc: Cc<Node> = Cc::new_cyclic(|_w: &Weak<Node>| Node::new(0));
    core::mem::forget(cc);
}

// ------------------------------------------------------------------------------------------------
// Cc::new_cyclic (C14), the two panic paths, through the unwind emulation (A-UNWIND)
// ------------------------------------------------------------------------------------------------
/// payload without Cc fields whose destructor only counts: safe to "drop" even on arbitrary bytes
pub(crate) struct Counted(pub u64);
pub(crate) static mut COUNTED_DROPS: u32 = 0;
pub(crate) static mut COUNTED_TRACES: u32 = 0;
unsafe impl Trace for Counted {
    fn trace(&self, _: &mut Context<'_>) {
        unsafe { COUNTED_TRACES += 1 };
    }
}
impl Finalize for Counted {
    fn finalize(&self) {
        unsafe { COUNTED_TRACES += 1 };
    }
}
impl Drop for Counted {
    fn drop(&mut self) {
        unsafe { COUNTED_DROPS += 1 };
    }
}
#[allow(static_mut_refs)]
static mut SAVED_C: Option<Weak<Counted>> = None;

/// The closure panics: no T is dropped, the box is released with its layout, allocated_bytes is back,
/// clones saved by the closure stay dead for ever and the last one frees the side record.
//@ C14 C07 C03 C09 | complete | deciding | feat=full,finweak | fn=Cc::new_cyclic,PanicGuard::drop,CcBox::drop_metadata,cc_dealloc | timeout=900
#[kani::proof]
#[kani::unwind(9)]
#[allow(static_mut_refs)]
pub(crate) fn weak_new_cyclic_closure_panics() {
    #[cfg(feature = "auto-collect")]
    let _ = crate::config::config(|c| c.set_auto_collect(false));
    // called from anywhere new_cyclic may be called: outside a collection, or from a finalizer / destructor /
    // cleaning action (of a plain drop or of a running collection) -- every flag combination except tracing
    let fl = any_flags_not_tracing();
    let b0 = state(|s| sp::snap(s)).bytes;
    let poisoned: Cc<Counted> = Cc::new_cyclic(|w: &Weak<Counted>| {
        unsafe { SAVED_C = Some(w.clone()) };
        ghost::start_panic(); // emulated `panic!` inside the closure
        Counted(0) // never produced by a real panic: forgotten by the hook, never dropped
    });
    core::mem::forget(poisoned);
    kani::assert(ghost::catch(), "Cc::new_cyclic::unwind::panic_propagates_to_the_caller");
    kani::assert(unsafe { COUNTED_DROPS } == 0 && unsafe { COUNTED_TRACES } == 0, "Cc::new_cyclic::unwind::no_value_of_T_dropped_or_touched");
    kani::assert(state(|s| sp::snap(s)).bytes == b0, "Cc::new_cyclic::unwind::all_box_memory_released_and_accounted");
    {
        let sn = state(|s| sp::snap(s));
        kani::assert(pc_view().1 == 0 && (sn.collecting, sn.finalizing, sn.dropping) == fl, "Cc::new_cyclic::unwind::collector_flags_as_before");
    }
    state(|s| sp::set_flags(s, false, false, false));
    let saved = unsafe { SAVED_C.take().unwrap() };
    kani::assert(saved.strong_count() == 0 && saved.upgrade().is_none(), "Cc::new_cyclic::unwind::saved_clones_stay_dead");
    kani::assert(saved.weak_count() == 1, "Weak::weak_count::post::reads_record_count");
    let c2 = saved.clone();
    kani::assert(c2.upgrade().is_none() && saved.weak_count() == 2, "Cc::new_cyclic::unwind::saved_clones_stay_dead");
    drop(c2);
    drop(saved); // last Weak: frees the record (double free / layout checked by CBMC)
}

/// The collection started automatically by new_cyclic panics (a buffered object's trace panics):
/// no value of T exists yet, so none may be dropped.
//@ C14 C07 | bounded: one buffered object whose trace panics, auto-collect due | deciding | feat=full | fn=Cc::new_cyclic,Cc::new,trigger_collection | timeout=900
#[cfg(feature = "auto-collect")]
#[kani::proof]
#[kani::unwind(12)]
pub(crate) fn weak_new_cyclic_automatic_collection_panics() {
    let h = mk_node(0);
    drop(h.clone()); // buffered: the collection will trace it
    state(|s| sp::set_bytes(s, 1000 + NODE_BOX)); // above the threshold: Cc::new inside new_cyclic collects
    g().fault_kind = 1;
    g().fault_k = 1; // the first trace call panics
    let b0 = state(|s| sp::snap(s)).bytes;
    let e0 = state(|s| sp::snap(s)).execs;
    let poisoned: Cc<Counted> = Cc::new_cyclic(|_w: &Weak<Counted>| Counted(7));
    core::mem::forget(poisoned);
    kani::assert(ghost::catch(), "Cc::new_cyclic::unwind::panic_of_automatic_collection_propagates");
    kani::assert(state(|s| sp::snap(s)).execs == e0 + 1, "trigger_collection::post::collects_exactly_when_due_and_at_most_once");
    kani::assert(unsafe { COUNTED_DROPS } == 0, "Cc::new_cyclic::unwind::no_value_of_T_dropped_or_touched");
    kani::assert(state(|s| sp::snap(s)).bytes == b0, "Cc::new_cyclic::unwind::all_box_memory_released_and_accounted");
    let sn = state(|s| sp::snap(s));
    kani::assert(!sn.collecting && !sn.finalizing && !sn.dropping, "Cc::new_cyclic::unwind::collector_idle");
    core::mem::forget(h);
}

/// C12 "allocation-triggered collection is a no-op from any callback of a running collection", stated on the
/// two public creation functions themselves (not on the helper they happen to share): with `collecting` set
/// (finalizer / destructor / cleaning action of a running collection), auto-collect on and the byte threshold
/// exceeded, neither `Cc::new` nor `Cc::new_cyclic` starts a collection: executions count, flags and buffer
/// are unchanged and no callback of the buffered object runs.
//@ C12 C15 | complete | deciding | feat=full | fn=Cc::new,Cc::new_cyclic,trigger_collection | timeout=900
#[cfg(feature = "auto-collect")]
#[kani::proof]
#[kani::unwind(14)]
pub(crate) fn creation_inside_a_running_collection_never_collects() {
    let h = mk_node(0);
    let x = raw_of(&h);
    crate::cc::add_to_list(x);
    // concrete header on purpose: if a collection does start, it runs on concrete control and the failing
    // obligation is reported instead of a solver timeout (DESIGN 1: symbolic control is fatal)
    let (t0, c0) = words_of(x);
    let (f, d): (bool, bool) = (kani::any(), kani::any());
    kani::assume(f || d);
    state(|s| sp::set_flags(s, true, f, d));
    let _ = crate::config::config(|c| {
        c.set_auto_collect(true);
        c.set_buffered_objects_threshold(None);
    });
    state(|s| sp::set_bytes(s, 1_000_000));
    let sn0 = state(|s| sp::snap(s));
    let via_cyclic: bool = kani::any();
    if via_cyclic {
        let c: Cc<Counted> = Cc::new_cyclic(|_w: &Weak<Counted>| Counted(1));
        let sn = state(|s| sp::snap(s));
        kani::assert(sn.execs == sn0.execs && (sn.collecting, sn.finalizing, sn.dropping) == (true, f, d), "Cc::new_cyclic::while_collecting::post::never_starts_a_collection");
        core::mem::forget(c);
    } else {
        let c = Cc::new(Leaf(1));
        let sn = state(|s| sp::snap(s));
        kani::assert(sn.execs == sn0.execs && (sn.collecting, sn.finalizing, sn.dropping) == (true, f, d), "Cc::new::while_collecting::post::never_starts_a_collection");
        core::mem::forget(c);
    }
    kani::assert(words_of(x) == (t0, c0) && pc_view().1 == 1 && ccp::cb_counts() == (0, 0, 0), "Cc::new::while_collecting::frame::buffer_and_objects_untouched_no_callback");
    core::mem::forget(h);
}
