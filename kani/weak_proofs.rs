// Specs and contract harnesses for src/weak/mod.rs (Weak, downgrade, new_cyclic) and for the
// weak-aware paths of Cc::try_unwrap / Cc::drop (child module => Weak's private fields visible).
use super::*;
use crate::cc::verif_proofs as ccp;
use crate::cc::verif_proofs::md::{self, M};
use crate::cc::verif_proofs::{count_of, havoc_idle, mk_node, node_of, pc_is, pc_view, raw_of, set_words_of, words_of, build_pc, any_flags_not_tracing, NODE_BOX, P, REG};
use crate::lists::verif_proofs as lp;
use crate::state::verif_proofs as sp;
use crate::state::state;
use crate::verif::ghost::{self, g};
use crate::verif::probes::*;
use alloc::alloc::Layout;

pub(crate) fn weak_from_parts<T: Trace + 'static>(m: Option<M>, p: NonNull<CcBox<T>>) -> Weak<T> {
    Weak { metadata: m, cc: p, _phantom: PhantomData }
}
pub(crate) fn weak_parts<T: Trace + 'static>(w: &Weak<T>) -> (Option<M>, usize) {
    (w.metadata, w.cc.as_ptr() as *const u8 as usize)
}

/// Object 0 with a side record whose weak count is symbolic (0..=32767, accessible); returns (handle, record, count).
fn node_with_record() -> (Cc<Node>, M, u16) {
    let h = mk_node(0);
    let m = h.inner().get_or_init_metadata();
    let k: u16 = kani::any();
    kani::assume(k <= 32767);
    md::set_wword(m, 0x8000 | k);
    (h, m, k)
}

// ------------------------------------------------------------------------------------------------
// get_or_init_metadata / drop_metadata / Cc::weak_count
// ------------------------------------------------------------------------------------------------
//@ C09 C03 | complete | deciding | feat=full,finweak | fn=CcBox::get_or_init_metadata,BoxedMetadata::new,Cc::weak_count,CcBox::layout,CcBox::vtable
#[kani::proof]
#[kani::unwind(9)]
pub(crate) fn weak_get_or_init_metadata_contract() {
    let h = mk_node(0);
    let x = raw_of(&h);
    let (t0, c0) = havoc_idle(x, false);
    let vt0 = md::vtable_data_addr(x);
    let lay0 = h.inner().layout();
    kani::assert(h.weak_count() == 0 && md::md_of(x).is_none(), "Cc::weak_count::post::zero_without_record");
    let m = h.inner().get_or_init_metadata();
    let (t1, c1) = words_of(x);
    kani::assert(c1 == c0 | 0x8000 && t1 == t0, "get_or_init_metadata::post::sets_only_the_record_bit");
    kani::assert(md::md_of(x) == Some(m), "get_or_init_metadata::post::header_points_to_record");
    kani::assert(md::wword(m) == 0x8000, "get_or_init_metadata::post::weak_count_zero_accessible");
    kani::assert(md::record_vtable_data_addr(m) == vt0 && md::vtable_data_addr(x) == vt0, "get_or_init_metadata::post::vtable_copied");
    kani::assert(h.inner().layout() == lay0 && lay0 == Layout::new::<CcBox<Node>>(), "CcBox::layout::post::equals_creation_layout_with_record");
    // idempotent
    let k: u16 = kani::any();
    kani::assume(k <= 32767);
    md::set_wword(m, 0x8000 | k);
    let m2 = h.inner().get_or_init_metadata();
    kani::assert(m2 == m && md::wword(m) == 0x8000 | k && words_of(x) == (t1, c1), "get_or_init_metadata::post::idempotent_reuses_record");
    kani::assert(h.weak_count() == k as u32, "Cc::weak_count::post::reads_record_count");
    core::mem::forget(h);
}

//@ C09 C03 | complete | deciding | feat=full,finweak | fn=CcBox::drop_metadata
#[kani::proof]
#[kani::unwind(9)]
pub(crate) fn weak_drop_metadata_contract_kept() {
    let (h, m, k) = node_with_record();
    kani::assume(k >= 1);
    let x = raw_of(&h);
    let w0 = words_of(x);
    h.inner().drop_metadata();
    kani::assert(md::wword(m) == k, "drop_metadata::post::record_kept_inaccessible_count_unchanged");
    kani::assert(words_of(x) == w0, "drop_metadata::frame::box_header");
    // no record: nothing happens
    let y = mk_node(1);
    let wy = words_of(raw_of(&y));
    y.inner().drop_metadata();
    kani::assert(words_of(raw_of(&y)) == wy, "drop_metadata::post::noop_without_record");
    core::mem::forget((h, y));
}

//@ C09 C03 | complete | deciding | feat=full | fn=CcBox::drop_metadata | mustfail=expect_freed
#[kani::proof]
#[kani::unwind(9)]
pub(crate) fn weak_drop_metadata_frees_unreferenced_record() {
    let (h, m, k) = node_with_record();
    kani::assume(k == 0);
    h.inner().drop_metadata();
    core::mem::forget(h);
    let _ = crate::utils::verif_proofs::expect_freed(m.as_ptr() as *const u8);
}

// ------------------------------------------------------------------------------------------------
// Weak::strong_count / upgrade / weak_count / new
// ------------------------------------------------------------------------------------------------
/// strong_count over a fully symbolic box header, record word and flag triple (box alive).
//@ C08 C09 | complete | deciding | feat=full,finweak | fn=Weak::strong_count,Weak::weak_count,Weak::weak_counter_marker
#[kani::proof]
#[kani::unwind(9)]
pub(crate) fn weak_strong_count_formula() {
    let h = mk_node(0);
    let x = raw_of(&h);
    let m = h.inner().get_or_init_metadata();
    let ww: u16 = kani::any();
    md::set_wword(m, ww);
    let t: u16 = kani::any();
    let c: u16 = kani::any();
    kani::assume(c & 0x8000 != 0 && (c & 0x3fff) != 0x3fff);
    set_words_of(x, t, c);
    let (fc, ff, fd): (bool, bool, bool) = (kani::any(), kani::any(), kani::any());
    state(|s| sp::set_flags(s, fc, ff, fd));
    let w = weak_from_parts(Some(m), unsafe { REG[0].unwrap() });
    let accessible = ww & 0x8000 != 0;
    let dead = !accessible || (c & 0x3fff) == 0 || (t & 0x3fff) == 0x3fff || ((t >> 15) == 1 && fd);
    let sc = w.strong_count();
    kani::assert(sc == if dead { 0 } else { (c & 0x3fff) as u32 }, "Weak::strong_count::post::zero_iff_dead_else_exact_count");
    kani::assert(w.weak_count() == (ww & 0x7fff) as u32, "Weak::weak_count::post::reads_record_count");
    kani::assert(words_of(x) == (t, c) && md::wword(m) == ww, "Weak::strong_count::frame::pure");
    core::mem::forget((h, w));
}

/// Counting queries stay valid after the box is gone: they only read the record (box really freed here).
//@ C09 C08 | complete | deciding | feat=full,finweak | fn=Weak::strong_count,Weak::weak_count,Weak::upgrade,Weak::drop
#[kani::proof]
#[kani::unwind(9)]
pub(crate) fn weak_queries_after_box_freed() {
    let h = mk_node(0);
    let p = unsafe { REG[0].unwrap() };
    let w = h.downgrade();
    let w2 = w.clone();
    let m = w.metadata.unwrap();
    drop(h); // last owner: box freed, record handed over to the Weaks
    kani::assert(g().n_drop == 1, "Cc::drop::last_owner::post::dropped_exactly_once");
    kani::assert(md::wword(m) == 2, "drop_metadata::post::record_kept_inaccessible_count_unchanged");
    kani::assert(w.strong_count() == 0 && w.weak_count() == 2, "Weak::strong_count::post::zero_after_value_gone");
    kani::assert(w.upgrade().is_none(), "Weak::upgrade::post::none_after_value_gone");
    drop(w2);
    kani::assert(w.weak_count() == 1 && w.strong_count() == 0, "Weak::drop::post::weak_count_minus_one");
    // CBMC's pointer checks flag any access to the freed box in the calls above
    core::mem::forget(w);
}

/// The last Weak frees the record once the box is gone.
//@ C09 C03 | complete | deciding | feat=full | fn=Weak::drop | mustfail=expect_freed
#[kani::proof]
#[kani::unwind(9)]
pub(crate) fn weak_last_weak_frees_record() {
    let h = mk_node(0);
    let w = h.downgrade();
    let m = w.metadata.unwrap();
    drop(h);
    drop(w);
    let _ = crate::utils::verif_proofs::expect_freed(m.as_ptr() as *const u8);
}

//@ C08 C09 | complete | deciding | feat=full,finweak | fn=Weak::new,Weak::strong_count,Weak::weak_count,Weak::upgrade,Weak::clone,Weak::drop
#[kani::proof]
pub(crate) fn weak_new_never_upgrades() {
    let w: Weak<Node> = Weak::new();
    kani::assert(w.strong_count() == 0 && w.weak_count() == 0, "Weak::new::post::counts_zero");
    kani::assert(w.upgrade().is_none(), "Weak::new::post::never_upgrades");
    let w2 = w.clone();
    kani::assert(w2.upgrade().is_none() && Weak::ptr_eq(&w, &w2), "Weak::new::post::clone_never_upgrades");
    drop(w2);
    drop(w);
    kani::assert(state(|s| sp::snap(s)).bytes == 0, "Weak::new::post::no_allocation");
}

/// upgrade = Some iff strong_count > 0; then +1, un-buffers, same allocation, nothing else.
//@ C08 C04 C11 C01 | complete | deciding | feat=full,finweak | fn=Weak::upgrade,Cc::__new_internal,Cc::mark_alive | timeout=900
#[kani::proof]
#[kani::unwind(9)]
pub(crate) fn weak_upgrade_contract_alive() {
    let (h, m, k) = node_with_record();
    kani::assume(k >= 1);
    let y = mk_node(1);
    let z = mk_node(2);
    let (x, py, pz) = (raw_of(&h), raw_of(&y), raw_of(&z));
    let in_pc: bool = kani::any();
    let (arr, n) = build_pc(x, [py, pz], in_pc);
    let (t0, c0) = havoc_idle(x, in_pc);
    kani::assume(c0 & 0x3fff < 16382);
    let (wy, wz) = (words_of(py), words_of(pz));
    let fl = any_flags_not_tracing();
    let sn0 = state(|s| sp::snap(s));
    let w = weak_from_parts(Some(m), unsafe { REG[0].unwrap() });
    kani::assert(w.strong_count() == (c0 & 0x3fff) as u32, "Weak::strong_count::post::equals_cc_count_while_alive");
    let up = w.upgrade();
    kani::assert(up.is_some(), "Weak::upgrade::post::some_while_alive");
    let up = up.unwrap();
    kani::assert(raw_of(&up) == x && Cc::ptr_eq(&up, &h), "Weak::upgrade::post::same_allocation");
    let (t1, c1) = words_of(x);
    kani::assert(c1 & 0x3fff == (c0 & 0x3fff) + 1 && c1 & 0xc000 == c0 & 0xc000, "Weak::upgrade::post::strong_count_plus_one");
    kani::assert(t1 >> 14 == 0 && ccp::next_of(x).is_none() && ccp::prev_of(x).is_none(), "Weak::upgrade::post::not_buffered");
    { let (a, b) = pc_is(&arr, n, Some(x)); kani::assert(a, "Weak::upgrade::post::buffer_is_old_buffer_without_operand"); kani::assert(b, "Weak::upgrade::post::buffered_count_minus_one_iff_was_buffered"); }
    kani::assert(md::wword(m) == 0x8000 | k, "Weak::upgrade::frame::record");
    kani::assert(words_of(py) == wy && words_of(pz) == wz, "Weak::upgrade::frame::other_objects");
    kani::assert(state(|s| sp::snap(s)) == sn0, "Weak::upgrade::frame::collector_state");
    kani::assert(ccp::cb_counts() == (0, 0, 0) && ccp::peek_node(&up).intact(), "Weak::upgrade::frame::no_callback_value_intact");
    core::mem::forget((h, up, y, z, w));
}

/// upgrade = None in every "dead" state of a still-allocated box, and then nothing changes.
//@ C08 C01 C03 | complete | deciding | feat=full,finweak | fn=Weak::upgrade,Weak::strong_count | timeout=900
#[kani::proof]
#[kani::unwind(9)]
pub(crate) fn weak_upgrade_contract_dead() {
    let h = mk_node(0);
    let x = raw_of(&h);
    let m = h.inner().get_or_init_metadata();
    let ww: u16 = kani::any();
    kani::assume(ww & 0x7fff >= 1);
    md::set_wword(m, ww);
    let t: u16 = kani::any();
    let c: u16 = kani::any();
    kani::assume(c & 0x8000 != 0 && (c & 0x3fff) != 0x3fff);
    set_words_of(x, t, c);
    let (fc, ff, fd): (bool, bool, bool) = (kani::any(), kani::any(), kani::any());
    kani::assume(!(fc && !ff && !fd));
    state(|s| sp::set_flags(s, fc, ff, fd));
    let accessible = ww & 0x8000 != 0;
    let dead = !accessible || (c & 0x3fff) == 0 || (t & 0x3fff) == 0x3fff || ((t >> 15) == 1 && fd);
    kani::assume(dead);
    let sn0 = state(|s| sp::snap(s));
    let w = weak_from_parts(Some(m), unsafe { REG[0].unwrap() });
    let up = w.upgrade();
    kani::assert(up.is_none(), "Weak::upgrade::post::none_when_dropped_moved_out_or_being_destroyed");
    kani::assert(words_of(x) == (t, c) && md::wword(m) == ww && state(|s| sp::snap(s)) == sn0, "Weak::upgrade::dead::frame::nothing_changes");
    core::mem::forget((h, w, up));
}

//@ C16 | complete | deciding | feat=full,finweak | fn=Weak::upgrade | panic=Too many references has been created to a single Cc
#[kani::proof]
#[kani::should_panic]
pub(crate) fn weak_upgrade_panics_at_max() {
    let (h, m, k) = node_with_record();
    kani::assume(k >= 1);
    let x = raw_of(&h);
    let (t0, c0) = havoc_idle(x, false);
    kani::assume(c0 & 0x3fff == 16382);
    let w = weak_from_parts(Some(m), unsafe { REG[0].unwrap() });
    let up = w.upgrade();
    core::mem::forget((h, up, w));
}

//@ C12 | complete | deciding | feat=full,finweak | fn=Weak::upgrade | panic=Cannot upgrade while tracing!
#[kani::proof]
#[kani::should_panic]
pub(crate) fn weak_upgrade_panics_while_tracing() {
    let (h, m, k) = node_with_record();
    let w = weak_from_parts(Some(m), unsafe { REG[0].unwrap() });
    state(|s| sp::set_flags(s, true, false, false));
    let up = w.upgrade();
    core::mem::forget((h, up, w));
}

// ------------------------------------------------------------------------------------------------
// downgrade / Weak::clone / Weak::drop
// ------------------------------------------------------------------------------------------------
//@ C09 C11 C08 | complete | deciding | feat=full,finweak | fn=Cc::downgrade,Cc::inner_ptr,CcBox::get_or_init_metadata | timeout=900
#[kani::proof]
#[kani::unwind(9)]
pub(crate) fn weak_downgrade_contract() {
    let h = mk_node(0);
    let y = mk_node(1);
    let z = mk_node(2);
    let (x, py, pz) = (raw_of(&h), raw_of(&y), raw_of(&z));
    let has_md: bool = kani::any();
    let mut k: u16 = 0;
    if has_md {
        let m = h.inner().get_or_init_metadata();
        k = kani::any();
        kani::assume(k < 32767);
        md::set_wword(m, 0x8000 | k);
    }
    let in_pc: bool = kani::any();
    let (arr, n) = build_pc(x, [py, pz], in_pc);
    let (t0, c0) = havoc_idle(x, in_pc);
    let fl = any_flags_not_tracing();
    let sn0 = state(|s| sp::snap(s));
    let w = h.downgrade();
    let (t1, c1) = words_of(x);
    let m = md::md_of(x);
    kani::assert(m.is_some() && w.metadata == m, "Cc::downgrade::post::weak_shares_the_record");
    kani::assert(weak_parts(&w).1 == x.as_ptr() as *const u8 as usize, "Cc::downgrade::post::weak_points_to_allocation");
    kani::assert(md::wword(m.unwrap()) == 0x8000 | (k + 1), "Cc::downgrade::post::weak_count_plus_one");
    kani::assert(h.weak_count() == (k + 1) as u32 && w.weak_count() == (k + 1) as u32, "Cc::weak_count::post::reads_record_count");
    kani::assert(c1 == c0 | 0x8000, "Cc::downgrade::frame::strong_count_and_finalized_bit");
    kani::assert(t1 >> 14 == 0 && t1 & 0x3fff == t0 & 0x3fff, "Cc::downgrade::post::not_buffered");
    { let (a, b) = pc_is(&arr, n, Some(x)); kani::assert(a, "Cc::downgrade::post::buffer_is_old_buffer_without_operand"); kani::assert(b, "Cc::downgrade::post::buffered_count_minus_one_iff_was_buffered"); }
    kani::assert(state(|s| sp::snap(s)) == sn0, "Cc::downgrade::frame::collector_state");
    kani::assert(w.strong_count() == (c0 & 0x3fff) as u32, "Weak::strong_count::post::equals_cc_count_while_alive");
    kani::assert(ccp::cb_counts() == (0, 0, 0), "Cc::downgrade::frame::no_callback");
    core::mem::forget((h, y, z, w));
}

//@ C16 | complete | deciding | feat=full,finweak | fn=Cc::downgrade | panic=Too many references has been created to a single Weak
#[kani::proof]
#[kani::should_panic]
pub(crate) fn weak_downgrade_panics_at_max() {
    let (h, m, k) = node_with_record();
    kani::assume(k == 32767);
    let w = h.downgrade();
    core::mem::forget((h, w));
}

//@ C16 C09 | complete | deciding | feat=full,finweak | fn=Cc::downgrade,Weak::clone
#[kani::proof]
#[kani::unwind(9)]
pub(crate) fn weak_count_unchanged_at_max() {
    let (h, m, k) = node_with_record();
    kani::assume(k == 32767);
    let x = raw_of(&h);
    let w0 = words_of(x);
    // the prefix of downgrade / Weak::clone up to the panic is exactly this call
    let r = unsafe { m.as_ref() }.weak_counter_marker.increment_counter();
    kani::assert(r.is_err() && md::wword(m) == 0x8000 | k && words_of(x) == w0, "Cc::downgrade::post::weak_count_unchanged_at_limit");
    core::mem::forget(h);
}

//@ C09 C08 | complete | deciding | feat=full,finweak | fn=Weak::clone,Weak::drop,Weak::ptr_eq | timeout=900
#[kani::proof]
#[kani::unwind(9)]
pub(crate) fn weak_clone_drop_contract() {
    let (h, m, k) = node_with_record();
    kani::assume(k >= 1 && k < 32767);
    let x = raw_of(&h);
    let in_pc: bool = kani::any();
    if in_pc { crate::cc::add_to_list(x); }
    let (t0, c0) = havoc_idle(x, in_pc);
    let fl = any_flags_not_tracing();
    let sn0 = state(|s| sp::snap(s));
    let w = weak_from_parts(Some(m), unsafe { REG[0].unwrap() });
    let w2 = w.clone();
    kani::assert(md::wword(m) == 0x8000 | (k + 1), "Weak::clone::post::weak_count_plus_one");
    kani::assert(w2.metadata == Some(m) && weak_parts(&w2).1 == weak_parts(&w).1 && Weak::ptr_eq(&w, &w2), "Weak::clone::post::same_allocation");
    kani::assert(words_of(x) == (t0, c0) && pc_view().1 == in_pc as usize, "Weak::clone::frame::box_counters_and_buffer");
    drop(w2);
    kani::assert(md::wword(m) == 0x8000 | k, "Weak::drop::post::weak_count_minus_one");
    kani::assert(words_of(x) == (t0, c0) && pc_view().1 == in_pc as usize, "Weak::drop::frame::box_counters_and_buffer");
    kani::assert(state(|s| sp::snap(s)) == sn0 && ccp::cb_counts() == (0, 0, 0), "Weak::drop::frame::collector_state_no_callback");
    core::mem::forget((h, w));
}

//@ C16 | complete | deciding | feat=full,finweak | fn=Weak::clone | panic=Too many references has been created to a single Weak
#[kani::proof]
#[kani::should_panic]
pub(crate) fn weak_clone_panics_at_max() {
    let (h, m, k) = node_with_record();
    kani::assume(k == 32767);
    let w = weak_from_parts(Some(m), unsafe { REG[0].unwrap() });
    let w2 = w.clone();
    core::mem::forget((h, w, w2));
}

/// The last Weak of a LIVE object leaves the record in place (accessible); re-downgrading reuses it.
//@ C09 | complete | deciding | feat=full,finweak | fn=Weak::drop,Cc::downgrade
#[kani::proof]
#[kani::unwind(9)]
pub(crate) fn weak_redowngrade_reuses_record() {
    let h = mk_node(0);
    let x = raw_of(&h);
    let w = h.downgrade();
    let m = w.metadata.unwrap();
    drop(w);
    kani::assert(md::wword(m) == 0x8000 && md::md_of(x) == Some(m), "Weak::drop::post::record_kept_while_box_alive");
    kani::assert(h.weak_count() == 0, "Cc::weak_count::post::reads_record_count");
    let w2 = h.downgrade();
    kani::assert(w2.metadata == Some(m) && md::wword(m) == 0x8001, "Cc::downgrade::post::reuses_record_after_count_returned_to_zero");
    kani::assert(w2.upgrade().map(|c| { let same = raw_of(&c) == x; core::mem::forget(c); same }) == Some(true), "Weak::upgrade::post::same_allocation");
    core::mem::forget((h, w2));
}
