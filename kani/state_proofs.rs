// Specs and contract harnesses for src/state.rs (collector flags, byte / execution counters,
// replace_state_field! guard).  All loop-free over fully symbolic field values: complete.
use super::*;

/// A fresh State whose five fields are symbolic.
pub(crate) fn any_state() -> State {
    let s = State::new();
    s.collecting.set(kani::any());
    #[cfg(feature = "finalization")]
    s.finalizing.set(kani::any());
    s.dropping.set(kani::any());
    s.allocated_bytes.set(kani::any());
    s.executions_counter.set(kani::any());
    s
}

#[derive(Clone, Copy, PartialEq, Eq)]
pub(crate) struct Snap {
    pub collecting: bool,
    pub finalizing: bool,
    pub dropping: bool,
    pub bytes: usize,
    pub execs: usize,
}
pub(crate) fn snap(s: &State) -> Snap {
    Snap {
        collecting: s.collecting.get(),
        #[cfg(feature = "finalization")]
        finalizing: s.finalizing.get(),
        #[cfg(not(feature = "finalization"))]
        finalizing: false,
        dropping: s.dropping.get(),
        bytes: s.allocated_bytes.get(),
        execs: s.executions_counter.get(),
    }
}
/// Set the thread-local collector flags (harness pre-state construction).
pub(crate) fn set_flags(s: &State, collecting: bool, finalizing: bool, dropping: bool) {
    s.collecting.set(collecting);
    #[cfg(feature = "finalization")]
    s.finalizing.set(finalizing);
    #[cfg(not(feature = "finalization"))]
    let _ = finalizing;
    s.dropping.set(dropping);
}
pub(crate) fn set_bytes(s: &State, b: usize) {
    s.allocated_bytes.set(b);
}
pub(crate) fn set_execs(s: &State, b: usize) {
    s.executions_counter.set(b);
}

//@ C12 C11 | complete | deciding | feat=full,std | fn=State::new
#[kani::proof]
pub(crate) fn state_new() {
    let s = State::new();
    let n = snap(&s);
    kani::assert(!n.collecting && !n.finalizing && !n.dropping, "State::new::post::idle");
    kani::assert(n.bytes == 0 && n.execs == 0, "State::new::post::counters_zero");
    kani::assert(!s.is_tracing(), "State::new::post::not_tracing");
}

//@ C12 | complete | deciding | feat=full,std | fn=State::is_tracing,State::is_collecting,State::is_dropping
#[kani::proof]
pub(crate) fn state_is_tracing_formula() {
    let s = any_state();
    let n = snap(&s);
    kani::assert(s.is_collecting() == n.collecting, "State::is_collecting::getter");
    kani::assert(s.is_dropping() == n.dropping, "State::is_dropping::getter");
    #[cfg(feature = "finalization")]
    kani::assert(s.is_finalizing() == n.finalizing, "State::is_finalizing::getter");
    kani::assert(s.is_tracing() == (n.collecting && !n.finalizing && !n.dropping),
        "State::is_tracing::post::collecting_and_not_finalizing_and_not_dropping");
    kani::assert(snap(&s) == n, "State::getters::frame");
}

//@ C12 C07 | complete | deciding | feat=full,std | fn=State::set_collecting,State::set_dropping
#[kani::proof]
pub(crate) fn state_setters() {
    let s = any_state();
    let n = snap(&s);
    let v: bool = kani::any();
    match kani::any::<u8>() % 3 {
        0 => {
            s.set_collecting(v);
            kani::assert(snap(&s) == Snap { collecting: v, ..n }, "State::set_collecting::post_and_frame");
        }
        1 => {
            s.set_dropping(v);
            kani::assert(snap(&s) == Snap { dropping: v, ..n }, "State::set_dropping::post_and_frame");
        }
        _ => {
            #[cfg(feature = "finalization")]
            {
                s.set_finalizing(v);
                kani::assert(snap(&s) == Snap { finalizing: v, ..n }, "State::set_finalizing::post_and_frame");
            }
        }
    }
}

//@ C11 | complete | deciding | feat=full,std | fn=State::record_allocation,State::record_deallocation,State::allocated_bytes
#[kani::proof]
pub(crate) fn state_bytes() {
    let s = any_state();
    let n = snap(&s);
    let size: usize = kani::any();
    let align_pow: u8 = kani::any();
    kani::assume(align_pow < 13);
    let align = 1usize << align_pow;
    kani::assume(size <= (isize::MAX as usize) - (align - 1));
    let layout = Layout::from_size_align(size, align).unwrap();
    kani::assert(s.allocated_bytes() == n.bytes, "State::allocated_bytes::getter");
    if kani::any() {
        kani::assume(n.bytes <= usize::MAX - size);
        s.record_allocation(layout);
        kani::assert(snap(&s) == Snap { bytes: n.bytes + size, ..n }, "State::record_allocation::post::plus_layout_size");
    } else {
        kani::assume(n.bytes >= size);
        s.record_deallocation(layout);
        kani::assert(snap(&s) == Snap { bytes: n.bytes - size, ..n }, "State::record_deallocation::post::minus_layout_size");
    }
}

//@ C11 | complete | deciding | feat=full,std | fn=State::increment_executions_count,State::executions_count
#[kani::proof]
pub(crate) fn state_execs() {
    let s = any_state();
    let n = snap(&s);
    kani::assume(n.execs < usize::MAX);
    kani::assert(s.executions_count() == n.execs, "State::executions_count::getter");
    s.increment_executions_count();
    kani::assert(snap(&s) == Snap { execs: n.execs + 1, ..n }, "State::increment_executions_count::post::plus_one");
}

/// replace_state_field!: sets the new value, restores the OLD value (not `false`) when the guard
/// is dropped, nests correctly, touches nothing else.
//@ C12 C07 C08 C05 | complete | deciding | feat=full,std | fn=State::set_dropping
#[kani::proof]
pub(crate) fn state_replace_guard() {
    let s = any_state();
    let st = &s;
    let n = snap(&s);
    let v1: bool = kani::any();
    let v2: bool = kani::any();
    {
        let _g1 = replace_state_field!(dropping, v1, st);
        kani::assert(snap(&s) == Snap { dropping: v1, ..n }, "replace_state_field::dropping::post::sets_value");
        {
            let _g2 = replace_state_field!(dropping, v2, st);
            kani::assert(snap(&s) == Snap { dropping: v2, ..n }, "replace_state_field::dropping::nested::sets_value");
        }
        kani::assert(snap(&s) == Snap { dropping: v1, ..n }, "replace_state_field::dropping::nested::restores_outer");
    }
    kani::assert(snap(&s) == n, "replace_state_field::dropping::drop::restores_old_value");
    #[cfg(feature = "finalization")]
    {
        {
            let _g1 = replace_state_field!(finalizing, v1, st);
            kani::assert(snap(&s) == Snap { finalizing: v1, ..n }, "replace_state_field::finalizing::post::sets_value");
        }
        kani::assert(snap(&s) == n, "replace_state_field::finalizing::drop::restores_old_value");
    }
}

/// The public introspection functions read the thread-local state (no symbolic state here:
/// the thread-local starts from State::new()).
//@ C11 C12 | complete | deciding | feat=full,std | fn=allocated_bytes,executions_count,is_tracing,buffered_objects_count
#[kani::proof]
pub(crate) fn state_public_getters() {
    let b: usize = kani::any();
    let e: usize = kani::any();
    let (c, f, d): (bool, bool, bool) = (kani::any(), kani::any(), kani::any());
    state(|s| {
        set_bytes(s, b);
        set_execs(s, e);
        set_flags(s, c, f, d);
    });
    #[cfg(not(feature = "finalization"))]
    let f = false;
    kani::assert(matches!(allocated_bytes(), Ok(x) if x == b), "state::allocated_bytes::post::reads_thread_local");
    kani::assert(matches!(executions_count(), Ok(x) if x == e), "state::executions_count::post::reads_thread_local");
    kani::assert(matches!(is_tracing(), Ok(x) if x == (c && !f && !d)), "state::is_tracing::post::formula");
    kani::assert(matches!(buffered_objects_count(), Ok(0)), "state::buffered_objects_count::post::empty_buffer_is_zero");
}
