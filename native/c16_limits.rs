// C16, bounded native stand-in (labelled bounded, never counted as proved): the public operations AT the
// limits, with REAL unwinding out of the crate's own panic sites (Kani compiles with panic=abort, so what
// unwinding does after those panics — dropping the locals that are live there — is outside its reach),
// and the object's later life: it can still be collected, is finalized once and freed once.
use rust_cc::*;
use rust_cc::weak::Weak;
use std::cell::{Cell, RefCell};
use std::panic::{catch_unwind, AssertUnwindSafe};

const MAX_STRONG: usize = 16382;
const MAX_WEAK: usize = 32767;

thread_local! {
    static FIN: Cell<u32> = Cell::new(0);
    static DROPS: Cell<u32> = Cell::new(0);
}
struct Obj { me: RefCell<Option<Cc<Obj>>> }
unsafe impl Trace for Obj { fn trace(&self, ctx: &mut Context<'_>) { self.me.trace(ctx); } }
impl Finalize for Obj { fn finalize(&self) { FIN.with(|c| c.set(c.get() + 1)); } }
impl Drop for Obj { fn drop(&mut self) { DROPS.with(|c| c.set(c.get() + 1)); } }

fn quiet<R>(f: impl FnOnce() -> R) -> std::thread::Result<R> {
    let hook = std::panic::take_hook();
    std::panic::set_hook(Box::new(|_| {}));
    let r = catch_unwind(AssertUnwindSafe(f));
    std::panic::set_hook(hook);
    r
}

#[test]
fn strong_limit_by_clone_and_upgrade_then_later_life() {
    let a = Cc::new(Obj { me: RefCell::new(None) });
    let w = a.downgrade();
    let mut v: Vec<Cc<Obj>> = Vec::new();
    // half by clone, half by upgrade (mixed way of reaching the limit), with a side record
    while a.strong_count() < MAX_STRONG as u32 {
        if v.len() % 2 == 0 { v.push(a.clone()); } else { v.push(w.upgrade().expect("alive")); }
    }
    assert_eq!(a.strong_count(), MAX_STRONG as u32);
    let fin_before = a.already_finalized();
    assert!(quiet(|| a.clone()).is_err(), "clone at the limit must panic");
    assert_eq!(a.strong_count(), MAX_STRONG as u32, "count changed by the panicking clone");
    assert!(quiet(|| w.upgrade()).is_err(), "upgrade at the limit must panic");
    assert_eq!(a.strong_count(), MAX_STRONG as u32, "count changed by the panicking upgrade");
    assert_eq!(w.strong_count(), MAX_STRONG as u32);
    assert_eq!(a.weak_count(), 1, "weak count / side-record flag disturbed");
    assert_eq!(a.already_finalized(), fin_before, "finalized flag disturbed");
    // later life: make it a garbage cycle and release everything
    v.truncate(1);
    *a.me.borrow_mut() = v.pop();
    assert_eq!(a.strong_count(), 2);
    drop(a);
    collect_cycles();
    collect_cycles();
    assert_eq!(FIN.with(|c| c.get()), 1, "finalized exactly once");
    assert_eq!(DROPS.with(|c| c.get()), 1, "dropped exactly once");
    assert!(w.upgrade().is_none());
    drop(w);
    assert_eq!(state::allocated_bytes().unwrap(), 0, "freed");
}

#[test]
fn weak_limit_by_downgrade_and_weak_clone() {
    let a = Cc::new(Obj { me: RefCell::new(None) });
    let mut v: Vec<Weak<Obj>> = Vec::new();
    v.push(a.downgrade());
    while v.len() < MAX_WEAK {
        if v.len() % 2 == 0 { v.push(a.downgrade()); } else { let c = v[0].clone(); v.push(c); }
    }
    assert_eq!(a.weak_count(), MAX_WEAK as u32);
    assert!(quiet(|| v[0].clone()).is_err(), "Weak::clone at the limit must panic");
    assert_eq!(a.weak_count(), MAX_WEAK as u32, "weak count changed by the panicking Weak::clone");
    assert_eq!(v[0].weak_count(), MAX_WEAK as u32);
    assert!(quiet(|| a.downgrade()).is_err(), "downgrade at the limit must panic");
    assert_eq!(a.weak_count(), MAX_WEAK as u32, "weak count changed by the panicking downgrade");
    assert_eq!(a.strong_count(), 1, "strong count disturbed");
    assert!(v[0].upgrade().is_some());
    // later life: the value goes first, every Weak reports it dead, the last Weak frees the record
    drop(a);
    assert_eq!(DROPS.with(|c| c.get()), 1);
    assert_eq!(v[MAX_WEAK - 1].strong_count(), 0);
    assert_eq!(v[0].weak_count(), MAX_WEAK as u32);
    v.clear();
    assert_eq!(state::allocated_bytes().unwrap(), 0);
}
