// Native replay for C14 / C07 (D2): the automatic collection started by Cc::new_cyclic panics
// (a buffered object's Trace::trace panics).  No value of T has been constructed at that point, so
// no destructor of T may run.
use rust_cc::*;
use rust_cc::weak::Weak;
use std::cell::{Cell, RefCell};
use std::panic::{catch_unwind, AssertUnwindSafe};

thread_local! {
    static T_DROPS: Cell<u32> = Cell::new(0);
    static CLOSURE_RAN: Cell<bool> = Cell::new(false);
    static PANIC_IN_TRACE: Cell<bool> = Cell::new(false);
}

struct T { _payload: [u64; 4] }
unsafe impl Trace for T { fn trace(&self, _: &mut Context<'_>) {} }
impl Finalize for T {}
impl Drop for T {
    fn drop(&mut self) { T_DROPS.with(|c| c.set(c.get() + 1)); }
}

struct Bomb { me: RefCell<Option<Cc<Bomb>>>, _pad: [u8; 256] }
unsafe impl Trace for Bomb {
    fn trace(&self, ctx: &mut Context<'_>) {
        if PANIC_IN_TRACE.with(|c| c.get()) { panic!("trace panics"); }
        self.me.trace(ctx);
    }
}
impl Finalize for Bomb {}

#[test]
fn no_value_of_t_is_dropped_when_the_automatic_collection_of_new_cyclic_panics() {
    // a buffered object above the byte threshold (100): the next creation starts a collection
    let b = Cc::new(Bomb { me: RefCell::new(None), _pad: [0; 256] });
    drop(b.clone());
    assert!(state::allocated_bytes().unwrap() > 100);
    PANIC_IN_TRACE.with(|c| c.set(true));
    let r = catch_unwind(AssertUnwindSafe(|| {
        let _cc: Cc<T> = Cc::new_cyclic(|_w: &Weak<T>| {
            CLOSURE_RAN.with(|c| c.set(true));
            T { _payload: [1; 4] }
        });
    }));
    PANIC_IN_TRACE.with(|c| c.set(false));
    assert!(r.is_err(), "the panic of the automatic collection propagates");
    assert!(!CLOSURE_RAN.with(|c| c.get()));
    assert_eq!(T_DROPS.with(|c| c.get()), 0, "a destructor of T ran although no T was ever constructed");
    drop(b);
}
