// Native replay for C07 / C05 / C01 (D1): Trace::trace panics during the counting phase of a
// collection; the panic is caught; the program goes on.  A LIVE object that was still buffered when
// the collection unwound must not be treated as garbage by the next collection.
use rust_cc::*;
use std::cell::{Cell, RefCell};
use std::panic::{catch_unwind, AssertUnwindSafe};

thread_local! {
    static PANIC_IN_C: Cell<bool> = Cell::new(false);
    static FIN_A: Cell<u32> = Cell::new(0);
    static DROP_A: Cell<u32> = Cell::new(0);
}

struct A { canary: u64 }
unsafe impl Trace for A { fn trace(&self, _: &mut Context<'_>) {} }
impl Finalize for A { fn finalize(&self) { FIN_A.with(|c| c.set(c.get() + 1)); } }
impl Drop for A { fn drop(&mut self) { DROP_A.with(|c| c.set(c.get() + 1)); self.canary = 0; } }

struct B { me: RefCell<Option<Cc<B>>>, a: Cc<A> }
unsafe impl Trace for B {
    fn trace(&self, ctx: &mut Context<'_>) { self.me.trace(ctx); self.a.trace(ctx); }
}
impl Finalize for B {}

struct C;
unsafe impl Trace for C {
    fn trace(&self, _: &mut Context<'_>) {
        if PANIC_IN_C.with(|c| c.get()) { panic!("trace panics"); }
    }
}
impl Finalize for C {}

#[test]
fn live_object_survives_the_collection_after_an_unwound_one() {
    let a = Cc::new(A { canary: 0xA5A5 });
    let b = Cc::new(B { me: RefCell::new(None), a: a.clone() });
    *b.me.borrow_mut() = Some(b.clone());
    let c = Cc::new(C);
    // buffer order [B, C, A]
    drop(a.clone());
    drop(c.clone());
    drop(b.clone());
    PANIC_IN_C.with(|p| p.set(true));
    let r = catch_unwind(AssertUnwindSafe(|| collect_cycles()));
    PANIC_IN_C.with(|p| p.set(false));
    assert!(r.is_err(), "the panic propagates to the caller");
    assert_eq!(state::is_tracing().unwrap(), false);
    // continuation: B's last external handle goes, B (self-loop) is now garbage, A is still held
    drop(b);
    collect_cycles();
    assert_eq!(FIN_A.with(|c| c.get()), 0, "live object A was finalized");
    assert_eq!(DROP_A.with(|c| c.get()), 0, "live object A was dropped");
    assert_eq!(a.canary, 0xA5A5);
    assert_eq!(a.strong_count(), 1);
}
