// Native replay for C12 / D3: a finalizer run by a plain last-owner Cc::drop calls collect_cycles();
// the collection starts (executions_count +1) and every Trace::trace call it makes must see
// state::is_tracing() == Ok(true).
use rust_cc::*;
use std::cell::{Cell, RefCell};

thread_local! {
    static TRACE_CALLS: Cell<u32> = Cell::new(0);
    static TRACE_NOT_TRACING: Cell<u32> = Cell::new(0);
}

struct Cyc {
    me: RefCell<Option<Cc<Cyc>>>,
}
unsafe impl Trace for Cyc {
    fn trace(&self, ctx: &mut Context<'_>) {
        TRACE_CALLS.with(|c| c.set(c.get() + 1));
        if !matches!(state::is_tracing(), Ok(true)) {
            TRACE_NOT_TRACING.with(|c| c.set(c.get() + 1));
        }
        self.me.trace(ctx);
    }
}
impl Finalize for Cyc {}

struct Outer;
unsafe impl Trace for Outer {
    fn trace(&self, _: &mut Context<'_>) {}
}
impl Finalize for Outer {
    fn finalize(&self) {
        let before = state::executions_count().unwrap();
        collect_cycles();
        assert_eq!(state::executions_count().unwrap(), before + 1, "a collection was started from the finalizer");
    }
}

#[test]
fn trace_sees_is_tracing_in_collection_started_from_plain_drop_finalizer() {
    // garbage self-cycle, buffered
    let c = Cc::new(Cyc { me: RefCell::new(None) });
    *c.me.borrow_mut() = Some(c.clone());
    drop(c);
    // last-owner drop of an unrelated object: its finalizer requests a collection
    let o = Cc::new(Outer);
    drop(o);
    assert!(TRACE_CALLS.with(|c| c.get()) > 0, "the nested collection traced the cycle");
    assert_eq!(TRACE_NOT_TRACING.with(|c| c.get()), 0, "Trace::trace ran while state::is_tracing() was not true");
}
