#!/bin/sh
# Offline setup: nothing to fetch. Optionally warms a dependency build cache for Kani (not required).
set -e
cd "$(dirname "$0")"
mkdir -p evidence replays
python3 -c "import json; json.load(open('MANIFEST.json'))"
exit 0
